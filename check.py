#!/usr/bin/env python3
"""check.py Cnn [--tier quick|thorough] [--replay PATH] [--write-baseline]

Decides one property of /verif/properties.jsonl on /repo's current working tree (XDIS_REPO overrides
the tree, used for seeded-change tests on scratch copies).

exit 0  property held on everything explored (KNOWN-FINDING lines may be printed)
exit 1  violation: line `VIOLATION property=<id> replay=<path>` (optionally ending no-failing-input-found)
exit 0  also when part of the proof was UNDECIDED on this tree and the bounded native search found nothing: UNDECIDED lines
        are printed and the evidence level of the run drops to exploration (PYVC_STRICT=1: exit 2 instead)
exit 3  checker error (engine crash, zero obligations, vacuity guard, spec adequacy failure)
"""
import argparse
import concurrent.futures as cf
import importlib
import json
import os
import sys
import time
import traceback

HERE = os.path.dirname(os.path.abspath(__file__))
sys.path.insert(0, HERE)
os.environ.setdefault("PYTHONDONTWRITEBYTECODE", "1")
sys.dont_write_bytecode = True
REPO = os.environ.get("XDIS_REPO", "/repo")
if REPO not in sys.path:
    sys.path.insert(0, REPO)


def _unit(args):
    from pyvc import runner
    return runner.run_unit(*args)


def _call(args):
    modname, fname, kw = args
    try:
        mod = importlib.import_module(modname)
        return getattr(mod, fname)(**kw)
    except Exception as e:
        # An exception whose innermost frame is code of the tree under check, raised while a bounded check drives it on the
        # inputs the property quantifies over, is a failing input against the real code (the call chain is the replay); an
        # exception raised in the checker's own frames is a checker error (exit 3), never a violation.
        frames = traceback.extract_tb(e.__traceback__)
        repo_real = os.path.realpath(REPO) + os.sep
        if frames and os.path.realpath(frames[-1].filename).startswith(repo_real):
            last = frames[-1]
            rel = os.path.relpath(os.path.realpath(last.filename), repo_real)
            chain = " -> ".join("%s:%d %s" % (os.path.basename(f.filename), f.lineno, f.name) for f in frames[-4:])
            return {"name": "%s.%s" % (modname, fname), "kind": "bounded", "bound": "aborted: the code under check raised", "evaluations": 1, "obligations": [],
                    "violations": [{"name": "bounded/%s/raises" % modname.split(".")[-1], "key": "raises:%s:%s:%s" % (type(e).__name__, rel, last.name),
                                    "input": "call chain %s" % chain, "confirmed": True,
                                    "detail": "%s: %s raised in %s line %d (%s) while %s.%s drove the code under check | %s" % (
                                        type(e).__name__, str(e)[:200], rel, last.lineno, last.name, modname, fname, traceback.format_exc()[-900:].replace("\n", " | "))}],
                    "assumptions": []}
        return {"name": "%s.%s" % (modname, fname), "error": "%s: %s\n%s" % (type(e).__name__, e, traceback.format_exc()[-1200:]),
                "obligations": [], "violations": []}


def main():
    ap = argparse.ArgumentParser()
    ap.add_argument("prop")
    ap.add_argument("--tier", default=os.environ.get("VERIF_TIER", "quick"))
    ap.add_argument("--replay")
    ap.add_argument("--write-baseline", action="store_true")
    ap.add_argument("--jobs", type=int, default=min(16, os.cpu_count() or 4))
    a = ap.parse_args()
    seed = int(os.environ.get("VERIF_SEED", "0") or 0)
    if a.replay:
        from pyvc import replay
        sys.exit(replay.main(a.replay))
    import propdefs
    pd = propdefs.PROPS[a.prop]
    t0 = time.time()
    timeout_ms = 10000 if a.tier == "quick" else 60000
    replay_dir = os.path.join(HERE, "replays")
    os.makedirs(replay_dir, exist_ok=True)

    # ---------------- deductive units
    units = []
    for entry in pd.get("contracts", []):
        modname, target = entry[0], entry[1]
        cmod = importlib.import_module(modname)
        c = [x for x in cmod.CONTRACTS if x.name == target][0]
        labels = list(cmod.configs_for(c).keys()) if hasattr(cmod, "configs_for") else [""]
        if len(entry) > 2 and entry[2] is not None:
            keep = entry[2].get(a.tier, entry[2].get("quick")) if isinstance(entry[2], dict) else entry[2]
            if keep is not None:
                labels = [lb for lb in labels if lb in keep]
        only = os.environ.get("PYVC_ONLY")
        if only:
            labels = [lb for lb in labels if lb in only.split(",")]
        for lb in labels:
            units.append((modname, target, lb, timeout_ms, replay_dir, a.prop))
    tasks = [("unit", u) for u in units]
    for g in pd.get("ground", []):
        tasks.append(("call", (g[0], g[1], dict(g[2] if len(g) > 2 else {}, tier=a.tier, seed=seed))))
    if a.tier == "thorough":
        for g in pd.get("thorough", []):
            tasks.append(("call", (g[0], g[1], dict(g[2] if len(g) > 2 else {}, tier=a.tier, seed=seed))))
    for g in pd.get("bounded", []):
        tasks.append(("call", (g[0], g[1], dict(g[2] if len(g) > 2 else {}, tier=a.tier, seed=seed))))
    results = []
    with cf.ProcessPoolExecutor(max_workers=a.jobs) as ex:
        futs = [ex.submit(_unit if k == "unit" else _call, arg) for k, arg in tasks]
        for (k, arg), fu in zip(tasks, futs):
            try:
                r = fu.result()
            except Exception as e:
                r = {"target": str(arg[:3]), "error": "worker died: %r" % (e,), "obligations": [], "undecided": [], "violations": []}
            r["_kind"] = k
            results.append(r)

    from pyvc import report
    code = report.finish(a.prop, pd, a.tier, seed, results, time.time() - t0, write_baseline=a.write_baseline)
    sys.exit(code)


if __name__ == "__main__":
    main()
