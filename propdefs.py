"""Registry: which contracts / ground checks / bounded stand-ins decide each property."""

PROPS = {}
NOT_YET = {}

PROPS["C05"] = {
    "level": "proof",
    "contracts": [
        ("contracts.bytecode", "xdis.bytecode:offset2line"),
        ("contracts.cross_dis", "xdis.cross_dis:findlinestarts"),
        ("contracts.lines", "xdis.codetype.code310:Code310.co_lines"),
        ("contracts.lines", "xdis.cross_dis:findlinestarts/co_lines"),
        ("contracts.lines", "xdis.opcodes.opcode_313:findlinestarts_313"),
        ("contracts.code311", "xdis.codetype.code311:_scan_varint"),
        ("contracts.code311", "xdis.codetype.code311:_go_to_next_code_byte"),
        ("contracts.code311", "xdis.codetype.code311:parse_linetable"),
    ],
    "ground": [],
    "bounded": [("ground.oracle_diff", "check", {"prop": "C05"}), ("ground.adequacy", "check", {"which": ("lines",)}), ("ground.lineoffsets", "check", {})],
    "assumptions": [],
}

PROPS["C17"] = {
    "level": "proof",
    "contracts": [
        ("contracts.bytecode", "xdis.bytecode:_parse_varint"),
        ("contracts.bytecode", "xdis.bytecode:parse_exception_table"),
        ("contracts.code311", "xdis.codetype.code311:_scan_varint"),
        ("contracts.code311", "xdis.codetype.code311:_go_to_next_code_byte"),
        ("contracts.code311", "xdis.codetype.code311:parse_linetable"),
        ("contracts.code311", "xdis.codetype.code311:decode_position_entry"),
    ],
    "bounded": [("ground.oracle_diff", "check", {"prop": "C17"}), ("ground.adequacy", "check", {"which": ("lines", "exc")}), ("ground.locations", "check", {})],
    "assumptions": [],
}

PROPS["C02"] = {
    "level": "proof",
    "contracts": [
        ("contracts.wordcode", "xdis.wordcode:unpack_opargs_wordcode"),
        ("contracts.wordcode", "xdis.cross_dis:unpack_opargs_bytecode_310"),
        ("contracts.wordcode", "xdis.cross_dis:unpack_opargs_bytecode_310/3.11+"),
        ("contracts.wordcode", "xdis.cross_dis:unpack_opargs_bytecode"),
        ("contracts.decoder", "xdis.bytecode:get_instructions_bytes"),
        ("contracts.decoder", "xdis.bytecode:get_instructions_bytes/bytecode"),
        # the per-offset decoder (operand folding, EXTENDED_ARG carry, instruction size): every table in the thorough tier and
        # in C03's quick tier; one table per encoding family here
        ("contracts.decoder", "xdis.bytecode:get_logical_instruction_at_offset", {"quick": ["15", "27", "35", "38", "310", "311", "313"], "thorough": None}),
    ],
    "assumptions": [],
    "bounded": [("ground.oracle_diff", "check", {"prop": "C02"})],
}

PROPS["C04"] = {
    "level": "proof",
    "contracts": [
        ("contracts.wordcode", "xdis.wordcode:findlabels"),
        ("contracts.wordcode", "xdis.wordcode:findlabels/3.11+"),
        ("contracts.wordcode", "xdis.cross_dis:findlabels_310"),
        ("contracts.wordcode", "xdis.cross_dis:findlabels_310/3.11+"),
        ("contracts.wordcode", "xdis.cross_dis:findlabels_pre_310"),
        # the unpackers the finders consume by contract (also C02)
        ("contracts.wordcode", "xdis.wordcode:unpack_opargs_wordcode"),
        ("contracts.wordcode", "xdis.cross_dis:unpack_opargs_bytecode_310"),
        ("contracts.wordcode", "xdis.cross_dis:unpack_opargs_bytecode_310/3.11+"),
        ("contracts.wordcode", "xdis.cross_dis:unpack_opargs_bytecode"),
        # the decoder's jump argval and is_jump_target (every table in the thorough tier and in C03's quick tier)
        ("contracts.decoder", "xdis.bytecode:get_logical_instruction_at_offset", {"quick": ["27", "38", "310", "311", "312", "313"], "thorough": None}),
    ],
    "assumptions": [],
    "ground": [("ground.effects", "check_frames", {"prop": "C04", "roots": ['xdis.wordcode:findlabels', 'xdis.cross_dis:findlabels', 'xdis.cross_dis:findlabels_pre_310', 'xdis.bytecode:get_instructions_bytes']})],
    "bounded": [("ground.oracle_diff", "check", {"prop": "C04"})],
}

PROPS["C03"] = {
    "level": "proof",
    "contracts": [
        ("contracts.decoder", "xdis.bytecode:get_logical_instruction_at_offset"),
    ],
    "bounded": [("ground.oracle_diff", "check", {"prop": "C03"}), ("ground.localsplus", "check")],
    "assumptions": [],
}

PROPS["C15"] = {
    "level": "proof",
    "contracts": [
        ("contracts.cross_dis", "xdis.cross_dis:xstack_effect"),
    ],
    "assumptions": ["closed forms of CPython's stack_effect are selected from a template family by agreement with the real interpreters on sampled operands (spec/stack_effect.py); operands >= 2**30 are outside the domain (C int overflow in CPython)"],
    "ground": [("ground.effects", "check_frames", {"prop": "C15", "roots": ['xdis.std:make_std_api', 'xdis.cross_dis:xstack_effect']})],
}

PROPS["C08"] = {
    "level": "proof",
    "exhaustive": True,
    "contracts": [],
    "ground": [("ground.c08", "check")],
    "explanation": "finite tables: every obligation is a closed formula over /repo's current tables, decided by evaluating the real functions exhaustively (65536 magic ints, every registry row, every accepted magic, every release name)",
    "assumptions": [],
}

PROPS["C09"] = {
    "level": "proof",
    "exhaustive": True,
    "contracts": [],
    "ground": [("ground.c09", "check")],
    "explanation": "finite tables: data-structure invariants of every opcode table (39 tables x every opcode slot x 7 category sets) and equality with the `opcode` module of the 9 installed CPythons, decided by exhaustive evaluation of /repo's tables as imported",
    "assumptions": [],
}

PROPS["C06"] = {
    "level": "proof",
    "contracts": [
        ("contracts.load", "xdis.load:load_module_from_file_object"),
    ],
    "assumptions": ["which version a magic belongs to: CPython's registry for final releases (C08 proves xdis agrees with it); PyPy corpus magics: the header layout of the CPython version they implement (no PyPy in the sandbox)",
                    "files shorter than 50 bytes are rejected by load_module before this function (precondition len >= 50)"],
}


PROPS["C16"] = {
    "level": "proof",
    "contracts": [
        ("contracts.codetype", "xdis.codetype:codeType2Portable"),
        ("contracts.codetype", "xdis.codetype.code38:Code38.to_native"),
        ("contracts.codetype", "xdis.codetype.code310:Code310.to_native"),
        ("contracts.codetype", "xdis.codetype.code311:Code311.to_native"),
        ("contracts.codetype", "xdis.codetype.code13:Code13.replace"),
    ],
    "assumptions": ["host model: attribute set and positional constructor order of types.CodeType for 3.8 - 3.13 from spec/ref/hosts.json (extracted from and validated against the installed interpreters); field values are abstract tokens (identity + type)",
                    "copy.deepcopy copies the record and shares immutable field values"],
    "bounded": [("ground.native_roundtrip", "check")],
}

PROPS["C20"] = {
    "level": "proof",
    "contracts": [
        ("contracts.std", "xdis.std:_StdApi.get_instructions"),
        ("contracts.std", "xdis.std:_StdApi.get_instructions/first_line=None"),
        ("contracts.std", "xdis.std:_StdApi.findlabels"),
        ("contracts.decoder", "xdis.bytecode:get_instructions_bytes"),
        ("contracts.decoder", "xdis.bytecode:get_instructions_bytes/bytecode"),
        # callees the wrappers rely on: the per-offset decoder (tables of the hosts that can run xdis, all in the
        # thorough tier) and the label finders
        ("contracts.decoder", "xdis.bytecode:get_logical_instruction_at_offset", {"quick": ["38", "39", "310", "311", "312", "313"], "thorough": None}),
        ("contracts.wordcode", "xdis.wordcode:findlabels"),
        ("contracts.wordcode", "xdis.wordcode:findlabels/3.11+"),
    ],
    "bounded": [("ground.std_diff", "check")],
    "assumptions": [],
}

PROPS["C10"] = {
    "level": "proof",
    "contracts": [
        ("contracts.unmarshal", "xdis.unmarshal:_VersionIndependentUnmarshaller.t_int32"),
        ("contracts.unmarshal", "xdis.unmarshal:_VersionIndependentUnmarshaller.t_int64"),
        ("contracts.unmarshal", "xdis.unmarshal:_VersionIndependentUnmarshaller.t_long"),
        ("contracts.unmarshal", "xdis.unmarshal:_VersionIndependentUnmarshaller.t_string"),
        ("contracts.unmarshal", "xdis.unmarshal:_VersionIndependentUnmarshaller.t_interned"),
        ("contracts.unmarshal", "xdis.unmarshal:_VersionIndependentUnmarshaller.t_ASCII"),
        ("contracts.unmarshal", "xdis.unmarshal:_VersionIndependentUnmarshaller.t_ASCII_interned"),
        ("contracts.unmarshal", "xdis.unmarshal:_VersionIndependentUnmarshaller.t_short_ASCII"),
        ("contracts.unmarshal", "xdis.unmarshal:_VersionIndependentUnmarshaller.t_short_ASCII_interned"),
        ("contracts.unmarshal", "xdis.unmarshal:_VersionIndependentUnmarshaller.t_unicode"),
        ("contracts.unmarshal", "xdis.unmarshal:_VersionIndependentUnmarshaller.t_object_reference"),
        ("contracts.unmarshal", "xdis.unmarshal:_VersionIndependentUnmarshaller.t_python2_string_reference"),
        ("contracts.unmarshal", "xdis.unmarshal:_VersionIndependentUnmarshaller.t_small_tuple"),
        ("contracts.unmarshal", "xdis.unmarshal:_VersionIndependentUnmarshaller.t_tuple"),
        ("contracts.unmarshal", "xdis.unmarshal:_VersionIndependentUnmarshaller.t_frozenset"),
        ("contracts.unmarshal", "xdis.unmarshal:_VersionIndependentUnmarshaller.t_set"),
        ("contracts.unmarshal", "xdis.unmarshal:_VersionIndependentUnmarshaller.t_list"),
        ("contracts.unmarshal", "xdis.unmarshal:_VersionIndependentUnmarshaller.t_dict"),
    ],
    "ground": [("ground.c01", "check")],
    "bounded": [("ground.unmarshal_diff", "check"), ("ground.consts_diff", "check", {})],
    "assumptions": [],
}

PROPS["C01"] = {
    "level": "proof",
    "contracts": [
        ("contracts.unmarshal_dispatch", "xdis.unmarshal:_VersionIndependentUnmarshaller.r_object"),
        ("contracts.unmarshal_dispatch", "xdis.unmarshal:_VersionIndependentUnmarshaller.t_code"),
    ] + PROPS["C10"]["contracts"],
    "ground": [("ground.c01", "check")],
    "bounded": [("ground.oracle_diff", "check", {"prop": "C01"}), ("ground.unmarshal_diff", "check"), ("ground.consts_diff", "check", {})],
    "assumptions": [],
}

_MW = "xdis.marsh:_Marshaller."
PROPS["C14"] = {
    "level": "proof",
    "contracts": [("contracts.marsh", _MW + n) for n in ("w_long", "w_short", "w_long64", "dump_int", "dump_long", "dump_float")]
                 + [("contracts.marsh", "xdis.marsh:" + n) for n in ("_r_short", "_r_long", "_r_long64")],
    "bounded": [("ground.marsh_diff", "check")],
    "assumptions": [],
}

PROPS["C13"] = {
    "level": "proof",
    "contracts": [("contracts.writer", "xdis.load:write_bytecode_file"), ("contracts.writer", "xdis.load:write_bytecode_file/out-of-range"),
                  ("contracts.writer", "xdis.marsh:_Marshaller.dump_code3"), ("contracts.writer", "xdis.marsh:_Marshaller.dump_code3/refuses-3.11"),
                  ("contracts.writer", "xdis.marsh:_Marshaller.dump_code2")]
                 + [("contracts.marsh", _MW + n) for n in ("w_long", "w_short", "dump_long", "dump_float")],
    "ground": [("ground.writer_ts", "check")],
    "bounded": [("ground.pyc_roundtrip", "check")],
    "assumptions": [],
}

PROPS["C19"] = {
    "level": "proof",
    "contracts": [("contracts.freeze", "xdis.codetype.code30:Code3.encode_lineno_tab"), ("contracts.freeze", "xdis.codetype.code15:Code15.encode_lineno_tab"),
                  ("contracts.freeze", "xdis.codetype.code310:Code310.encode_lineno_tab")],
    "bounded": [("ground.freeze_roundtrip", "check")],
    "technique": "loop-invariant proofs of the three line-table encoders against ghost transcriptions of CPython's readers (the reader's state after the bytes appended so far); bounded round trip through xdis and the real CPython decoders for freeze()'s table normalisation and end to end",
    "assumptions": [],
}

PROPS["C11"] = {
    "level": "proof",
    "contracts": [("contracts.load", "xdis.load:load_module_from_file_object/escape"),
                  # the only exit of the readers' container loops on a truncated stream: r_object raises at end of file
                  ("contracts.unmarshal_dispatch", "xdis.unmarshal:_VersionIndependentUnmarshaller.r_object/at-eof")],
    "ground": [("ground.effects", "check_c11")],
    "bounded": [("ground.fuzz_load", "check")],
    "assumptions": [],
}

PROPS["C18"] = {
    "level": "proof",
    "ground": [("ground.effects", "check_c18")],
    "bounded": [("ground.history", "check")],
    "technique": "frame conditions (no write to process-wide state) checked statically per reachable function over an over-approximated call graph; bounded history replay with state snapshots as stand-in for aliasing the frame analysis cannot see",
    "assumptions": [],
}

PROPS["C12"] = {
    "level": "proof",
    # the '>>' marks of a listing are the word-code label finder's set (3.6+): its contract (C04's) is discharged here too,
    # for the tables of the hosts' own versions in the quick tier and every word-code table in the thorough tier
    "contracts": [
        ("contracts.wordcode", "xdis.wordcode:findlabels", {"quick": ["38", "310"], "thorough": None}),
        ("contracts.wordcode", "xdis.wordcode:findlabels/3.11+"),
    ],
    "ground": [("ground.effects", "check_c12")],
    "bounded": [("ground.listing", "check")],
    "technique": "frame condition (no write to sys.stdout) checked statically per reachable function; contract of the word-code label finder behind the '>>' marks discharged by pyvc (AST -> VCs -> z3/cvc5); bounded listing-vs-instruction-stream comparison on the corpus as stand-in for the formatters",
    "assumptions": [],
}

PROPS["C07"] = {
    "level": "proof",
    # "which loader path is taken": the native path is the host's own CPython; the portable path's line and position
    # decoders for the formats a host may hand to it (3.10, 3.11+) are proved against CPython's readers - the contracts of
    # C05 and C17, discharged here as well (they are the deductive half of the loader-path clause; seconds)
    "contracts": list(PROPS["C05"]["contracts"]) + list(PROPS["C17"]["contracts"]),
    "ground": [("ground.effects", "check_c07")],
    "bounded": [("ground.hosts", "check")],
    "technique": "frame-style obligation per host-constant read (partial evaluation over the six hosts shows the residual expression is host-independent, or it is a listed switch whose sides are proved equal by C01/C10/C16); bounded differential over the six installed hosts and both loader paths for everything else",
    "assumptions": [],
}

# ---------------------------------------------------------------------------------------------
# level texts / notes (MANIFEST)
_T = {
 "C02": ("For every opcode table (39 tables, 1.0-3.13 + PyPy) the three operand unpackers are proved equal, for all code byte strings, to CPython's _unpack_opargs of that version family (pointwise: offset, opcode, folded operand incl. EXTENDED_ARG chains; 3.11+ under the stated well-formedness of inline caches); the per-offset decoder's Instruction fields are proved against the same spec, and the stream driver get_instructions_bytes is proved to yield exactly CPython's instruction sequence (offset of the k-th instruction, opcode, globally folded operand) for every table.",
         "pyvc's encoding of the Python subset; spec functions validated against the 9 installed CPythons only for 2.7, 3.6-3.13 (other tables: format documentation, relative to C09); the stream driver get_instructions_bytes is under contract for every table (word code: 3.6+; byte code: 1.0-3.5, where 'the logical instruction at each instruction start ends inside the code' is an assumed well-formedness precondition)."),
 "C03": ("The per-offset decoder get_logical_instruction_at_offset is proved, per opcode table and for all code bytes / operands / table contents, to resolve argval as CPython's dis does for constants, names (incl. 3.11+ LOAD_GLOBAL/LOAD_ATTR/LOAD_SUPER_ATTR shifts), locals/free variables (incl. 3.11+ localsplus and 3.13 paired operands), compare operators (3.12/3.13 shifts) and jump targets.",
         "co_varnames / cell+free tables bounded to 2 and 1 symbolic names in the proof (constants, names unbounded); localsplus is xdis's reconstruction from (varnames, cellvars+freevars), compared with CPython's own table by a bounded differential on 3.11-3.13 programs of every table shape (recorded known finding: a free variable that shares a local's name, 3.12+); IndexError on out-of-range table indices is allowed; known finding: cmp_op spelling."),
 "C04": ("All three label finders are proved, per opcode table and for all code bytes, to return exactly the set of jump targets CPython's dis.findlabels computes (relative/absolute, word scaling from 3.10, backward jumps from 3.11, inline-cache skips in 3.12/3.13); the decoder's jump argval and is_jump_target are proved against the same spec.",
         "lists abstracted to their element sets (only append/membership are used); exception-handler targets added to labels by the decoder are checked only when exception_entries is None in the proof (bounded differential otherwise)."),
 "C05": ("offset2line (binary search) and every line-start routine are proved for all inputs against spec functions of each line-table format: the co_lnotab branch of findlinestarts (unsigned deltas before 3.6, signed 3.6-3.9, 3.8 end-of-code cut), Code310.co_lines and the co_lines branch of findlinestarts (3.10 range table, no-line ranges), the 3.11+ location-table walker parse_linetable with its varint scanners, and findlinestarts_313.",
         "the spec functions' adequacy for CPython is bounded: they are compared with dis.findlinestarts / co_lines dumps of 9 interpreters; xdis.lineoffsets (the line -> offsets view) is bounded only: re-derived from findlinestarts and starts_line on the corpus, pre-2.1 code objects excluded because LineOffsetInfo does not accept them."),
 "C06": ("load_module_from_file_object is proved, for the magic of every final CPython release and the PyPy magics of the corpus and for all other header bytes, to return the header fields of that version's .pyc layout and to hand the stream to the code reader positioned right after the header.",
         "the code readers (load_code / marshal.loads / marsh.load) are external with an assumed contract whose precondition (stream position) is the proof obligation; files < 50 bytes rejected earlier."),
 "C08": ("Finite and exhaustive: int2magic/magic2int inverse on all 65536 values, every CPython registry row maps to its release, every accepted magic resolves to a version and an opcode table, release names map to the magic CPython's registry gives (a name with a patch level: exactly the magic of the registry's latest in-series row tagged with a patch level not above it, e.g. 3.5.0/3.5.1 -> 3350, 3.5.2 and later -> 3351).",
         "registry = magic history comment of importlib/_bootstrap_external.py (3.13.0) + MAGIC_NUMBER of the installed interpreters."),
 "C09": ("Finite and exhaustive: data-structure invariants of all 39 opcode tables and equality with the opcode module of the 9 installed CPythons (opmap, HAVE_ARGUMENT, EXTENDED_ARG, seven category sets, hasarg).",
         "no reference for 1.x-2.6, 3.0-3.5 and PyPy tables: invariants only."),
 "C15": ("xstack_effect is proved equal to CPython's dis.stack_effect for every opcode of the 3.6-3.13 tables and all operands 0 <= oparg < 2**30.",
         "closed forms of CPython's C function selected from a template family by agreement with the interpreters on sampled operands; versions without an interpreter are not covered."),
 "C17": ("_parse_varint and parse_exception_table are proved for all byte strings against the exception-table format (big-endian 6-bit varints, 4 per entry), including termination and StopIteration exactly on truncated input; the 3.11+ location-table walkers behind Code311.co_lines()/co_positions() (_scan_varint, _go_to_next_code_byte, parse_linetable, decode_position_entry) are proved against the entry layout of Objects/locations.md (all five forms, multi-byte varints, signed deltas).",
         "bounded only: the stand-alone location-entry parser parse_location_entries (nested generators and closures, outside pyvc's subset) is compared with co_positions() of CPython 3.11, 3.12 and 3.13 on generated well-formed tables; the exception-table rendering in listings is compared with the oracles' dumps."),
 "C01": ("The pure-Python unmarshaller is proved, for every input byte string, to follow the structure marshal.c defines: r_object dispatches each type code (with FLAG_REF and bytes_for_s) to the matching reader; t_code reads the fields of a code object in the order, width and signedness of each of 19 bytecode-version classes (1.0 ... 3.13) and passes each to the matching field of the portable code object, incl. the 3.11+ localsplus split and the reference slot reserved before the fields; the value readers (lists and dicts included) are those of C10. Value contents are compared with the real marshal only by the bounded differential.",
         "sub-objects are abstract (OBJ/END/NREF: modular induction, termination not proved here); format transcribed from marshal.c knowledge in spec/marshal_fmt.py and validated behaviourally against the marshal of 9 interpreters; 2.0 (magic 50823) layout not shipped: no oracle can arbitrate whether 2.0 code objects have free/cell variables; PyPy/Graal layouts not covered; bounded: 3.11+ localsplus with two names."),
 "C10": ("Each value reader of the unmarshaller (int32, int64, long digits, the seven length-prefixed string kinds, unicode, back references, interned-string references, small/large tuples, sets, frozensets, lists, dicts) is proved, for all inputs, to read the field widths/signs the format defines, to consume exactly its encoding, to read its children in order with bytes_for_s passed on, and to keep the reference-table discipline (slot index = references recorded before, reserved before the children, filled with the finished object; a list or dict is registered before its children and finished in place). The dict reader is proved to store the pairs of the stream, in order, up to the first NULL key or NULL value, with None an ordinary key or value.",
         "termination of the dict reader's `while True` loop is not proved (C11 bounds it); identity of an abstract sub-object with NULL / None is an uninterpreted predicate; float-text/complex readers, UTF-8 decoding and the equality of decoded *contents* are covered by the bounded differential against the real marshal (host marshal values, hand-assembled encodings, code objects of 9 interpreters)."),
 "C20": ("The std wrappers are proved to be plumbing into verified code: _StdApi.get_instructions / Bytecode.get_instructions invoke the stream driver exactly once with the API object's own opcode table, the code's own byte string and tables, the line starts computed for that code and line_offset = first_line - co_firstlineno; _StdApi.findlabels returns the CPython label set; the driver get_instructions_bytes is proved (all tables: words for 3.6+, 1/3-byte instructions before) to tile the code with CPython's globally folded operands and to pass the decoder's is_jump_target / starts_line (incl. the first_line shift) through; the decoder and label finders it relies on are proved per table.",
         "object coercion (functions, methods, generators, coroutines, classes, source strings -> code), first_line, argval and the module-level tables are compared with the host's own dis under each of the six hosts only by a bounded differential (ground/std_diff.py; known finding: arg of WITH_EXCEPT_START on 3.13); code objects with an exception table take the exception_entries path that is outside the driver's contract; dict(findlinestarts(..)) is an abstract map tied to its source sequence."),
 "C16": ("codeType2Portable, Code38/Code310/Code311.to_native and Code13.replace are proved, for each host 3.8-3.13 (attribute set and positional constructor order of types.CodeType taken from the real interpreters), to map every field to the same field (in particular the host's real line table and exception table), to choose the portable class of the host's version, and to leave the original object unchanged.",
         "field values are abstract tokens (identity + type): a plumbing proof; types.CodeType is an external constructor modelled by its positional order (run on real code objects under each host by a bounded native -> portable -> native round trip); a frame condition (no attribute added to the portable object) is part of the contract."),
 "C19": ("All three line-table encoders behind freeze() are proved with loop invariants against ghost transcriptions of CPython's readers (pyvc HAcc: the byte string under construction is tracked as the state the reader would be in after reading it): Code3.encode_lineno_tab (3.0-3.9; unsigned reader of 3.0-3.5, signed reader of 3.6-3.9, with and without decreasing lines), Code15.encode_lineno_tab (1.5-2.7) and Code310.encode_lineno_tab (3.10 range format, including its nested emitter function and the 'no line' prefix), for every table of strictly increasing offsets whose consecutive lines differ, every first line, every gap size: every appended pair is two bytes in 0..255; whenever the reader would yield a line start it is exactly the table entry it must be; after entry k it has yielded exactly the first k (3.10: k+1) entries and stands at the right offset and line; the 3.10 ranges end at len(co_code). freeze()'s dict/list normalisation and the end-to-end result are additionally round-tripped through xdis's and the matching CPython's decoders (2.7, 3.7-3.10): bounded.",
         "the ghost readers are transcriptions of dis.findlinestarts (<= 3.9 without the 3.8+ end-of-code cut; 3.10 over co_lines()) - trusted, cross-checked by the bounded round trip through the real CPythons; duplicate consecutive lines and equal offsets are outside the proved domain (a dict has distinct offsets; the readers themselves drop duplicate lines); unsigned tables: first offset 0 and lines must not decrease (the encoder skips such entries by design); 3.10: the last entry's range must be non-empty (len(co_code) beyond the last offset)."),
 "C11": ("r_object is proved to raise when the stream position is at the end of the data (the only exit the readers' container loops have on a truncated or hostile stream; that the loops terminate is not proved). Exception escape is proved for load_module_from_file_object: for the magic word of every final release, every PyPy magic of the corpus, every other magic in xdis's own tables, the dropbox magics and unknown words, for all file contents of at least 50 bytes (what load_module guarantees) and whatever the code readers do - each external reader may raise an exception of unknown class at its call - the function returns a 7-tuple (or the dropbox decoder's result) or raises ImportError, and closes nothing twice; a frame obligation per function reachable from load_module (151, over an over-approximated call graph) shows no exec/eval/compile/dynamic import/file-system write primitive. Termination, memory and the unmarshaller's own behaviour on corrupt data are covered by a bounded hostile-input sweep (prefixes, byte flips, insertions, adversarial lengths and references, deep nesting, every magic word) under time and address-space limits with CPython audit hooks.",
         "KeyboardInterrupt/SystemExit not modelled; load_module's size check and open() are assumed to see the same file (no race); RecursionError raised inside the readers is converted to ImportError like any other exception (counts as failing cleanly); static frame analysis recognises primitives by spelling; the unmarshaller's termination on hostile input is bounded evidence only."),
 "C18": ("History independence is decided as a frame condition: for each of the 235 functions reachable from the public operations (load_module, disassemble_file, get_opcode / get_opcode_module, make_std_api, marsh dump(s)/load(s), load_code, Bytecode, the label and line-start finders) one obligation shows that its body writes no module-level or class-level container, no mutable default argument (also not by letting it escape into an attribute), keeps no memo (@lru_cache) and patches no table except by save/restore in a finally block; remap_opcodes is the documented exception. Two alias forms are tracked statically (a local bound to a module-/class-level object; self.attr bound to another object's attribute without copying); other aliasing is left to the bounded history replay: a 97-operation catalogue, each operation alone in a fresh interpreter vs inside random sequences, with digests of every process-wide container before and after each operation.",
         "call graph over-approximated by name (see frames.ASSUMPTIONS); import-time table construction (init_opdata, fields2copy) is not reachable from the public operations and is not checked; aliasing: bounded evidence only."),
 "C12": ("Decided deductively: the 'clean' clause and the set of offsets that get a '>>' mark. The word-code label finder (3.6+), whose result the listing marks, is proved per table and for all code bytes to return exactly CPython's dis.findlabels set (the contract of C04; tables 3.8, 3.10-3.13 quick, all word-code tables thorough). Clean: a frame obligation for each of the 228 functions reachable from disassemble_file / pydisasm's main shows that its body has no print() without file=, no print(file=sys.stdout) and no sys.stdout.write (the listing goes to the stream it was given). Totality over the six formats and faithfulness of the classic/bytes listings to the instruction stream (each non-CACHE instruction once, in order, offset, name, operand, '>>' iff jump target, line number iff it starts a line) are checked on the corpus (2 files per version directory quick, all 260+ thorough): bounded.",
         "the per-instruction formatter (string formatting) and the listing loop are outside pyvc's modelled subset (opaque text): bounded evidence only; the instruction stream itself is the subject of C02-C05/C20; two recorded known findings (1.5-2.0 lnotab lines, xasm on PyPy 3.2)."),
 "C07": ("Deductive part (a): the line-start and 3.11+ location/exception-table decoders of the portable loader path are proved against CPython's readers (the contracts of C05 and C17, discharged under this property too: the native path is the host's own CPython, so these are the deductive half of 'whichever loader path is taken'). Deductive part (b): for every expression that reads a host constant (PYTHON_VERSION_TRIPLE, PYTHON3, IS_PYPY, PYTHON_MAGIC_INT, sys.version_info) in a function reachable from the decoding entry points, partial evaluation with the constants of each installed host 3.8-3.13 leaves the same residual expression - the code cannot branch differently on another host - or the expression is one of ten listed switches (fast-path test, default arguments that pick the host's own code type, the host's dis format, the banner) whose two sides are proved equal by C01/C10 (portable reader = format) and C16 (native -> portable field-exact per host). Everything the argument does not reach (text formatting, the host's marshal) is a bounded differential: 43 (quick) / 130+ (thorough) files of versions 2.7-3.13 decoded and listed under each of the six hosts, each 3.8-3.13 file on the native fast path on one host and through xdis's unmarshaller on the others and, on the native host, a second time through xdis's unmarshaller; compared modulo object addresses and the banner.",
         "the composition of C01/C10/C16 into 'both loader paths agree' is an argument in DESIGN.md section 10.5, not a machine-checked lemma; the host's marshal.loads is trusted; hosts are the six installed interpreters; static analysis assumptions of ground/frames.py; two recorded cosmetic known findings (code-object repr, set element order)."),
 "C14": ("The integer paths of xdis.marsh are proved for every int of any size: w_long/w_short/w_long64 append exactly the little-endian words that read back (two's complement) to the value; dump_int picks 'i'/'I' by range; dump_long writes 'l', the signed digit count and the 15-bit digits of |x| (loop invariants over a positional-notation spec with an induction lemma: the digits sum back to |x|, top digit non-zero, all digits < 2**15); the fast reader's _r_short/_r_long/_r_long64 are proved to decode the same words. dump_float's text is proved to be repr() of the argument framed by its length byte. Other text, complex and container writers/readers are compared with the marshal of hosts 3.8-3.13 by a bounded differential in both directions (dumps/loads, and the file-object forms dump/load: two recorded known findings - both file-object forms are unusable on Python 3).",
         "the byte sink is a ghost sequence of everything written through self._write; chr()/str concatenation modelled for code points < 256; load_long's accumulation (x | d << 15 i with symbolic shift) and all non-integer paths are bounded only; bytes-assembly in dumps() is bounded only."),
 "C13": ("write_bytecode_file is proved, for the magic of every final CPython release 1.3-3.13 and all timestamps/source sizes, to write exactly the header that the C06-verified reader decodes back to the same (magic, flags 0, timestamp, size), followed by the marshaller's bytes and nothing else, to the path given, and to close the file; out-of-range header words raise. The timestamp forms outside that domain (None, 0 or omitted: the current time is stamped; a datetime; a value of another type: TypeError) are enumerated exhaustively per final magic and kind of code object against the same header specification. _Marshaller.dump_code3 is proved to emit the fields of a 3.0-3.10 code object in the order and width of the layout the reader t_code is verified against (C01), and to refuse 3.11+ objects; _Marshaller.dump_code2 is proved to emit the 2.3-2.7 layout with co_code, co_filename, co_name, co_lnotab and every entry of co_names / co_varnames written through dump_string (byte strings for Python 2), each tuple framed by '(' and its own length (tuples of any length: loop invariants over the fold of the entries' chunks); w_long/w_short/dump_long as in C14. Whether the rewritten file is the same program is judged by the target interpreters (2.7, 3.6-3.13) and by xdis re-reading it, on 13 programs per version: bounded.",
         "marshal.dumps / xdis.marsh.dumps are external in the header proof (their result is an opaque byte chunk); dump() of sub-objects is abstract (D(v)) in the layout proof; compilation_ts given as a positive int (the datetime / now() branches are not under contract); dump_code2 (Python 2 layout) is not under contract: three recorded known findings live there; 1.0/1.1 magics excluded (the writer always writes \\r\\n)."),
}
for _k, (_a, _b) in _T.items():
    if _k in PROPS:
        PROPS[_k]["level_text"] = _a
        PROPS[_k]["level_note"] = _b
