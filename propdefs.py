"""Registry: which contracts / ground checks / bounded stand-ins decide each property."""

PROPS = {}

PROPS["C05"] = {
    "level": "proof",
    "contracts": [
        ("contracts.bytecode", "xdis.bytecode:offset2line"),
        ("contracts.cross_dis", "xdis.cross_dis:findlinestarts"),
    ],
    "ground": [],
    "bounded": [],
    "assumptions": [],
}

PROPS["C17"] = {
    "level": "proof",
    "contracts": [
        ("contracts.bytecode", "xdis.bytecode:_parse_varint"),
        ("contracts.bytecode", "xdis.bytecode:parse_exception_table"),
    ],
    "assumptions": [],
}

PROPS["C02"] = {
    "level": "proof",
    "contracts": [
        ("contracts.wordcode", "xdis.wordcode:unpack_opargs_wordcode"),
        ("contracts.wordcode", "xdis.cross_dis:unpack_opargs_bytecode_310"),
        ("contracts.wordcode", "xdis.cross_dis:unpack_opargs_bytecode_310/3.11+"),
        ("contracts.wordcode", "xdis.cross_dis:unpack_opargs_bytecode"),
    ],
    "assumptions": [],
}

PROPS["C04"] = {
    "level": "proof",
    "contracts": [
        ("contracts.wordcode", "xdis.wordcode:findlabels"),
        ("contracts.wordcode", "xdis.wordcode:findlabels/3.11+"),
        ("contracts.wordcode", "xdis.cross_dis:findlabels_310"),
        ("contracts.wordcode", "xdis.cross_dis:findlabels_310/3.11+"),
        ("contracts.wordcode", "xdis.cross_dis:findlabels_pre_310"),
        # the unpackers the finders consume by contract (also C02)
        ("contracts.wordcode", "xdis.wordcode:unpack_opargs_wordcode"),
        ("contracts.wordcode", "xdis.cross_dis:unpack_opargs_bytecode_310"),
        ("contracts.wordcode", "xdis.cross_dis:unpack_opargs_bytecode_310/3.11+"),
        ("contracts.wordcode", "xdis.cross_dis:unpack_opargs_bytecode"),
    ],
    "assumptions": [],
}

PROPS["C03"] = {
    "level": "proof",
    "contracts": [
        ("contracts.decoder", "xdis.bytecode:get_logical_instruction_at_offset"),
    ],
    "assumptions": [],
}
