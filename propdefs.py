"""Registry: which contracts / ground checks / bounded stand-ins decide each property."""

PROPS = {}

PROPS["C05"] = {
    "level": "proof",
    "contracts": [
        ("contracts.bytecode", "xdis.bytecode:offset2line"),
        ("contracts.cross_dis", "xdis.cross_dis:findlinestarts"),
    ],
    "ground": [],
    "bounded": [],
    "assumptions": [],
}

PROPS["C17"] = {
    "level": "proof",
    "contracts": [
        ("contracts.bytecode", "xdis.bytecode:_parse_varint"),
        ("contracts.bytecode", "xdis.bytecode:parse_exception_table"),
    ],
    "assumptions": [],
}

PROPS["C02"] = {
    "level": "proof",
    "contracts": [
        ("contracts.wordcode", "xdis.wordcode:unpack_opargs_wordcode"),
        ("contracts.wordcode", "xdis.cross_dis:unpack_opargs_bytecode_310"),
        ("contracts.wordcode", "xdis.cross_dis:unpack_opargs_bytecode_310/3.11+"),
        ("contracts.wordcode", "xdis.cross_dis:unpack_opargs_bytecode"),
    ],
    "assumptions": [],
}

PROPS["C04"] = {
    "level": "proof",
    "contracts": [
        ("contracts.wordcode", "xdis.wordcode:findlabels"),
        ("contracts.wordcode", "xdis.wordcode:findlabels/3.11+"),
        ("contracts.wordcode", "xdis.cross_dis:findlabels_310"),
        ("contracts.wordcode", "xdis.cross_dis:findlabels_310/3.11+"),
        ("contracts.wordcode", "xdis.cross_dis:findlabels_pre_310"),
        # the unpackers the finders consume by contract (also C02)
        ("contracts.wordcode", "xdis.wordcode:unpack_opargs_wordcode"),
        ("contracts.wordcode", "xdis.cross_dis:unpack_opargs_bytecode_310"),
        ("contracts.wordcode", "xdis.cross_dis:unpack_opargs_bytecode_310/3.11+"),
        ("contracts.wordcode", "xdis.cross_dis:unpack_opargs_bytecode"),
    ],
    "assumptions": [],
}

PROPS["C03"] = {
    "level": "proof",
    "contracts": [
        ("contracts.decoder", "xdis.bytecode:get_logical_instruction_at_offset"),
    ],
    "assumptions": [],
}

PROPS["C15"] = {
    "level": "proof",
    "contracts": [
        ("contracts.cross_dis", "xdis.cross_dis:xstack_effect"),
    ],
    "assumptions": ["closed forms of CPython's stack_effect are selected from a template family by agreement with the real interpreters on sampled operands (spec/stack_effect.py); operands >= 2**30 are outside the domain (C int overflow in CPython)"],
}

PROPS["C08"] = {
    "level": "proof",
    "exhaustive": True,
    "contracts": [],
    "ground": [("ground.c08", "check")],
    "explanation": "finite tables: every obligation is a closed formula over /repo's current tables, decided by evaluating the real functions exhaustively (65536 magic ints, every registry row, every accepted magic, every release name)",
    "assumptions": [],
}

PROPS["C09"] = {
    "level": "proof",
    "exhaustive": True,
    "contracts": [],
    "ground": [("ground.c09", "check")],
    "explanation": "finite tables: data-structure invariants of every opcode table (39 tables x every opcode slot x 7 category sets) and equality with the `opcode` module of the 9 installed CPythons, decided by exhaustive evaluation of /repo's tables as imported",
    "assumptions": [],
}

PROPS["C06"] = {
    "level": "proof",
    "contracts": [
        ("contracts.load", "xdis.load:load_module_from_file_object"),
    ],
    "assumptions": ["which version a magic belongs to: CPython's registry for final releases (C08 proves xdis agrees with it); PyPy corpus magics: the header layout of the CPython version they implement (no PyPy in the sandbox)",
                    "files shorter than 50 bytes are rejected by load_module before this function (precondition len >= 50)"],
}
