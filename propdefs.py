"""Registry: which contracts / ground checks / bounded stand-ins decide each property."""

PROPS = {}

PROPS["C05"] = {
    "level": "proof",
    "contracts": [
        ("contracts.bytecode", "xdis.bytecode:offset2line"),
        ("contracts.cross_dis", "xdis.cross_dis:findlinestarts"),
    ],
    "ground": [],
    "bounded": [],
    "assumptions": [],
}

PROPS["C17"] = {
    "level": "proof",
    "contracts": [
        ("contracts.bytecode", "xdis.bytecode:_parse_varint"),
        ("contracts.bytecode", "xdis.bytecode:parse_exception_table"),
    ],
    "assumptions": [],
}
