"""3.11+ location table (co_linetable): line information as code.co_lines() derives it.

Sources transliterated: Objects/locations.md; Objects/codeobject.c (3.11 - 3.13): scan_varint / scan_signed_varint,
get_line_delta, is_no_line_marker, next_code_delta, advance() [the next entry starts at the next byte with
bit 7 set], lineiter_next [3.12+: consecutive ranges with the same line are merged].
Entry byte: 1 ccccc lll  (c = code, l = length-1 in code units).  code 15: no line; 13/14: signed varint line
delta follows; 10/11/12: delta 0/1/2; 0-9: delta 0.
All functions are forward recursive.  Domain: varints of at most 5 bytes (values < 2**30).
"""
from pyvc.spec import spec, Bytes, IntSeq
from pyvc.sym import And, Implies, Len


@spec(lemma=lambda r, s: r >= 1)
def pow64(s: int) -> int:
    if s <= 0:
        return 1
    return 64 * pow64(s - 1)


@spec
def lev(data: Bytes, p: int, shift: int, acc: int) -> (int, int):
    """little-endian 6-bit varint continued at position p with `shift` groups already read and value acc:
    (value, position after it); reading stops silently at the end of the data (as xdis's and CPython's loops do
    on well-formed tables, where that never happens)"""
    if p >= len(data):
        return (acc, p)
    if p < 0:
        return (acc, p)
    b = data[p]
    v = acc + (b & 63) * pow64(shift)
    if (b & 64) == 0:
        return (v, p + 1)
    return lev(data, p + 1, shift + 1, v)


@spec(lemma=lambda r, data, p: r >= 0)
def lev_len(data: Bytes, p: int) -> int:
    """number of bytes of the varint starting at p"""
    if p >= len(data):
        return 0
    if p < 0:
        return 0
    if (data[p] & 64) == 0:
        return 1
    return 1 + lev_len(data, p + 1)


@spec(lemma=lambda r, data, p: Implies(p >= 0, And(r >= p, Implies(p <= Len(data), r <= Len(data)))))
def nxt_code(data: Bytes, p: int) -> int:
    """position of the first entry-start byte (bit 7 set) at or after p; len(data) if there is none"""
    if p >= len(data):
        return p
    if p < 0:
        return p
    if data[p] >= 128:
        return p
    return nxt_code(data, p + 1)


@spec
def ent_seq(data: Bytes, p: int, which: int) -> IntSeq:
    """component `which` (0 line_delta, 1 code_delta in bytes, 2 no-line flag 0/1) of every table entry whose
    first byte is at or after p"""
    q = nxt_code(data, p)
    if q >= len(data):
        return []
    if q < 0:
        return []
    b = data[q]
    code = (b >> 3) & 15
    nxt = q + 1
    ld = 0
    if code == 13 or code == 14:
        v, p2 = lev(data, q + 1, 0, 0)
        nxt = p2
        ld = v >> 1
        if (v & 1) != 0:
            ld = 0 - (v >> 1)
    if code == 11:
        ld = 1
    if code == 12:
        ld = 2
    x = ld
    if which == 1:
        x = ((b & 7) + 1) * 2
    if which == 2:
        x = 0
        if (b >> 3) == 31:
            x = 1
    return [x] + ent_seq(data, nxt, which)


@spec
def mrg(ld: IntSeq, cd: IntSeq, fl: IntSeq, i: int, start: int, end: int, line: int, flag: int, which: int) -> IntSeq:
    """component `which` (0 start, 1 end, 2 line-is-None 0/1, 3 line or 0) of the co_lines() ranges produced from
    entry i on, the open range being [start, end) with (line, no-line flag)"""
    x = start
    if which == 1:
        x = end
    if which == 2:
        x = 0
        if flag != 0:
            x = 1
    if which == 3:
        x = line
        if flag != 0:
            x = 0
    if i >= len(ld):
        return [x]
    if i < 0:
        return [x]
    if ld[i] != 0 or (fl[i] != 0) != (flag != 0):
        nf = 0
        if fl[i] != 0:
            nf = 1
        return [x] + mrg(ld, cd, fl, i + 1, end, end + cd[i], line + ld[i], nf, which)
    return mrg(ld, cd, fl, i + 1, start, end + cd[i], line, flag, which)


def entries(data):
    return list(zip(ent_seq(data, 0, 0), ent_seq(data, 0, 1), ent_seq(data, 0, 2)))


def co_lines(data, first):
    """native: list of (start, end, line-or-None) as code.co_lines() of CPython 3.12+ yields them"""
    es = entries(data)
    if not es:
        return []
    ld = [e[0] for e in es]; cd = [e[1] for e in es]; fl = [e[2] for e in es]
    cols = [mrg(ld, cd, fl, 1, 0, cd[0], first + ld[0], 1 if fl[0] else 0, w) for w in range(4)]
    return [(s, e, None if n else l) for s, e, n, l in zip(*cols)]


# ---------------------------------------------------------------- full location entries (co_positions)
@spec
def pent(data: Bytes, p: int, b: int, which: int) -> int:
    """field `which` of the location entry whose first byte b was read just before position p:
    0 line_delta, 1 num_lines (end_line - line), 2 column, 3 end column (-1 = none), 4 no-line flag (0/1),
    5 position after the entry's payload.  (Objects/locations.md, codeobject.c advance_with_locations)"""
    code = (b >> 3) & 15
    ld = 0
    nl = 0
    col = 0 - 1
    ecol = 0 - 1
    flag = 0
    nxt = p
    if code == 15:
        flag = 1
    if code == 14:
        v1, p1 = lev(data, p, 0, 0)
        v2, p2 = lev(data, p1, 0, 0)
        v3, p3 = lev(data, p2, 0, 0)
        v4, p4 = lev(data, p3, 0, 0)
        ld = v1 >> 1
        if (v1 & 1) != 0:
            ld = 0 - (v1 >> 1)
        nl = v2
        col = v3 - 1
        ecol = v4 - 1
        nxt = p4
    if code == 13:
        w1, q1 = lev(data, p, 0, 0)
        ld = w1 >> 1
        if (w1 & 1) != 0:
            ld = 0 - (w1 >> 1)
        nxt = q1
    if code == 10 or code == 11 or code == 12:
        ld = code - 10
        col = data[p]
        ecol = data[p + 1]
        nxt = p + 2
    if code <= 9:
        sb = data[p]
        col = code * 8 + (sb >> 4)
        ecol = col + (sb & 15)
        nxt = p + 1
    x = ld
    if which == 1:
        x = nl
    if which == 2:
        x = col
    if which == 3:
        x = ecol
    if which == 4:
        x = flag
    if which == 5:
        x = nxt
    return x
