"""Jump targets and label sets as CPython's dis computes them (Lib/dis.py findlabels / _get_jump_target).

  < 3.6    : rel  target = offset + 3 + arg          abs target = arg
  3.6-3.9  : rel  target = offset + 2 + arg          abs target = arg
  3.10     : rel  target = offset + 2 + 2*arg        abs target = 2*arg
  3.11     : as 3.10, arg negated when 'JUMP_BACKWARD' in opname[op]
  3.12     : as 3.11 + 2 * _inline_cache_entries[op]
  3.13     : backward = JUMP_BACKWARD, JUMP_BACKWARD_NO_INTERRUPT only; + 2 * cache size
Label sets are defined by backward recursion over the instruction ordinal (one unfolding per loop step).
"""
from pyvc.spec import spec, Bytes, IntSet, IntList
from pyvc.sym import set_add
from spec.wordcode import w_ext, c_ext, c_skip, b_off, b_ext

EMPTY = frozenset()


@spec
def w_target(off: int, op: int, arg: int, scale: int, jrel: IntSet, jabs: IntSet, backward: IntSet, ctab: IntList, cache_in_target: bool) -> int:
    """target of a word-code jump instruction at offset `off` (-1: not a jump)"""
    if op in jrel:
        a = arg
        if op in backward:
            a = 0 - arg
        t = off + 2 + scale * a
        if cache_in_target:
            t = t + 2 * ctab[op]
        return t
    if op in jabs:
        return scale * arg
    return 0 - 1


@spec
def wlab(code: Bytes, k: int, have: int, ext: int, scale: int, jrel: IntSet, jabs: IntSet, backward: IntSet, ctab: IntList, cache_in_target: bool) -> IntSet:
    """3.6 - 3.10: set of jump targets of the instructions in words [0, k)"""
    if k <= 0:
        return EMPTY
    prev = wlab(code, k - 1, have, ext, scale, jrel, jabs, backward, ctab, cache_in_target)
    op = code[2 * k - 2]
    if op >= have and (op in jrel or op in jabs):
        arg = code[2 * k - 1] + w_ext(code, k - 1, have, ext)
        return set_add(prev, w_target(2 * k - 2, op, arg, scale, jrel, jabs, backward, ctab, cache_in_target))
    return prev


@spec
def clab(code: Bytes, k: int, hasarg: IntSet, ext: int, jrel: IntSet, jabs: IntSet, backward: IntSet, ctab: IntList, cache_in_target: bool) -> IntSet:
    """3.11+: set of jump targets of the instructions (not cache words) among words [0, k)"""
    if k <= 0:
        return EMPTY
    prev = clab(code, k - 1, hasarg, ext, jrel, jabs, backward, ctab, cache_in_target)
    if c_skip(code, k - 1, ctab) > 0:
        return prev
    op = code[2 * k - 2]
    if op in hasarg and (op in jrel or op in jabs):
        arg = code[2 * k - 1] + c_ext(code, k - 1, hasarg, ext, ctab)
        return set_add(prev, w_target(2 * k - 2, op, arg, 2, jrel, jabs, backward, ctab, cache_in_target))
    return prev


@spec
def blab(code: Bytes, k: int, have: int, ext: int, jrel: IntSet, jabs: IntSet) -> IntSet:
    """< 3.6: set of jump targets of instructions [0, k)"""
    if k <= 0:
        return EMPTY
    prev = blab(code, k - 1, have, ext, jrel, jabs)
    o = b_off(code, k - 1, have)
    op = code[o]
    if op >= have:
        arg = code[o + 1] + code[o + 2] * 256 + b_ext(code, k - 1, have, ext)
        if op in jrel:
            return set_add(prev, o + 3 + arg)
        if op in jabs:
            return set_add(prev, arg)
    return prev
