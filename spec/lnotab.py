"""Line-number table (co_lnotab) decoding as CPython's own dis.findlinestarts does it.

Source transliterated: Lib/dis.py `findlinestarts`
  2.7 .. 3.5 : line increments unsigned, no cut
  3.6, 3.7   : line increments signed (>= 0x80 means - 0x100), no cut
  3.8, 3.9   : signed; after `addr += byte_incr`, `if addr >= len(co_code): return`
(Objects/lnotab_notes.txt).  The functions are *forward* recursive over the decoder state so that a
loop invariant needs exactly one unfolding per iteration.

Validated against the real interpreters: tools/adequacy.py (spec/ref/lnotab_cases_<ver>.json).
"""
from pyvc.spec import spec, Bytes, IntSeq


@spec
def ln_out(tab: Bytes, codelen: int, i: int, addr: int, line: int, has: bool, last: int,
           signed: bool, cut: bool, which: int) -> IntSeq:
    """Offsets (which == 0) or lines (which == 1) of the (offset, line) pairs dis.findlinestarts yields from
    lnotab pair index i on, when its state is addr/line/lastlineno (has == lastlineno is not None)."""
    if 2 * i + 1 >= len(tab):
        if (not has) or line != last:
            return [addr if which == 0 else line]
        return []
    b = tab[2 * i]
    d = tab[2 * i + 1]
    if signed and d >= 128:
        d = d - 256
    if b != 0:
        emit = (not has) or line != last
        naddr = addr + b
        if cut and naddr >= codelen:
            if emit:
                return [addr if which == 0 else line]
            return []
        if emit:
            return [addr if which == 0 else line] + ln_out(tab, codelen, i + 1, naddr, line + d, True, line, signed, cut, which)
        return ln_out(tab, codelen, i + 1, naddr, line + d, has, last, signed, cut, which)
    return ln_out(tab, codelen, i + 1, addr, line + d, has, last, signed, cut, which)


def ln_starts(tab, first, codelen, signed, cut):
    """native: the list of (offset, line) pairs"""
    return list(zip(ln_out(tab, codelen, 0, 0, first, False, 0, signed, cut, 0),
                    ln_out(tab, codelen, 0, 0, first, False, 0, signed, cut, 1)))


def version_flags(version_tuple):
    """(signed, cut) for a bytecode version; None means 'unknown, assume current CPython (3.8/3.9 rules)'"""
    if version_tuple is None:
        return True, True
    return version_tuple >= (3, 6), version_tuple >= (3, 8)
