"""Stack effects as CPython's own dis.stack_effect(op, oparg) [jump unspecified = maximum over both branches]
reports them.  No C sources are installed, so the closed form of each opcode is *selected from a fixed
family of templates* (the shapes compile.c:stack_effect uses) by requiring agreement with the real
interpreter on every sampled operand (0..299 and ten values up to 2**31-1: spec/ref/oracle_<v>.json;
tools/adequacy.py re-validates the selected forms against the live interpreters on 0..65536).
A template is a python expression over `oparg` that works on ints and on symbolic integers alike.
"""
from spec import reftables
from pyvc.sym import If, And, Or, Not


def popcount4(x):
    return (x & 1) + ((x >> 1) & 1) + ((x >> 2) & 1) + ((x >> 3) & 1)


def _templates():
    T = []
    for c in range(-10, 11):
        T.append(("const %d" % c, (lambda c: lambda a: c)(c)))
    for b in (-1, 1, -2, 2):
        for c in range(-4, 5):
            T.append(("%d + %d*oparg" % (c, b), (lambda b, c: lambda a: c + b * a)(b, c)))
    T.append(("(oparg & 0xFF) + (oparg >> 8)", lambda a: (a & 0xFF) + (a >> 8)))
    T.append(("(oparg & 0xFF) + (oparg >> 8) - 1", lambda a: (a & 0xFF) + (a >> 8) - 1))
    for base in (0, -1, -2):
        T.append(("%d - popcount(oparg & 0xF)" % base, (lambda base: lambda a: base - popcount4(a & 0xF))(base)))
    for mask in (1, 2, 4, 8, 16):
        for hi in range(-4, 4):
            for lo in range(-4, 4):
                if hi != lo:
                    T.append(("%d if oparg & %d else %d" % (hi, mask, lo), (lambda m, hi, lo: lambda a: If((a & m) != 0, hi, lo))(mask, hi, lo)))
    for k in (2, 3):
        for hi in range(-3, 3):
            for lo in range(-3, 3):
                if hi != lo:
                    T.append(("%d if oparg == %d else %d" % (hi, k, lo), (lambda k, hi, lo: lambda a: If(a == k, hi, lo))(k, hi, lo)))
    # CALL_FUNCTION family of 2.x / 3.0-3.5: -(lo byte) - 2*(hi byte) [+ c]
    for c in (0, -1, -2, -3):
        T.append(("%d - (oparg & 0xFF) - 2*(oparg >> 8)" % c, (lambda c: lambda a: c - (a & 0xFF) - 2 * (a >> 8))(c)))
        T.append(("%d - (oparg & 0xFF) - 2*((oparg >> 8) & 0xFF)" % c, (lambda c: lambda a: c - (a & 0xFF) - 2 * ((a >> 8) & 0xFF))(c)))
    # MAKE_FUNCTION 3.0-3.5: -1 - (lo byte) - 2*(mid byte) - (annotations)
    for c in (0, -1, -2):
        T.append(("%d - (oparg & 0xFF) - 2*((oparg >> 8) & 0xFF) - ((oparg >> 16) & 0x7FFF)" % c,
                  (lambda c: lambda a: c - (a & 0xFF) - 2 * ((a >> 8) & 0xFF) - ((a >> 16) & 0x7FFF))(c)))
    return T


TEMPLATES = _templates()
MAX_DEFINED = 2 ** 30        # operands above this overflow CPython's C int arithmetic; outside the domain


def fit(samples):
    """samples: [[oparg or None, value or 'err'], ...] -> (description, fn, domain) or None.
    domain: 'all' | 'noarg' (opcode without operand: compared at oparg = 0)"""
    pts = [(a, v) for a, v in samples if v != "err" and (a is None or a < MAX_DEFINED)]
    if not pts:
        return None
    if all(a is None for a, _ in pts):
        return ("const %d" % pts[0][1], (lambda c: lambda a: c)(pts[0][1]), "noarg")
    pts = [(a, v) for a, v in pts if a is not None]
    for desc, fn in TEMPLATES:
        try:
            if all(fn(a) == v for a, v in pts):
                return (desc, fn, "all")
        except Exception:
            continue
    return None


_FORMS = {}


def forms(ver):
    """{opname: (description, fn, domain, defined_fn)} for a CPython version with an oracle"""
    if ver in _FORMS:
        return _FORMS[ver]
    o = reftables.oracle(ver)
    out = {}
    unfit = []
    if o is not None and o.get("stack_effect"):
        for name, rows in o["stack_effect"].items():
            if o["opcode"]["opmap"][name] >= 256:
                continue
            f = fit(rows)
            errs = sorted(a for a, v in rows if v == "err" and a is not None and a < MAX_DEFINED)
            if f is None:
                unfit.append(name)
                continue
            out[name] = (f[0], f[1], f[2], errs)
    _FORMS[ver] = (out, unfit)
    return _FORMS[ver]
