"""3.10 line table (co_linetable) and dis.findlinestarts over co_lines().

Sources transliterated: Objects/lnotab_notes.txt (3.10) and Objects/codeobject.c (advance(),
PyLineTable_NextAddressRange: empty ranges are skipped but their line deltas accumulate; line delta -128 =
no line); Lib/dis.py findlinestarts of 3.10 - 3.12 (line is not None and line != lastline) and of 3.13
(lastline = False; `line is not lastline`, None lines are reported).
Forward recursive over the table position / range index.
"""
from pyvc.spec import spec, Bytes, IntSeq, IntList


@spec
def lt310(table: Bytes, i: int, end: int, line: int, which: int) -> IntSeq:
    """component `which` (0 start, 1 end, 2 line-is-None as 0/1, 3 line or 0) of every (start, end, line)
    triple code.co_lines() yields from table entry i on, when the iterator state is (end, line)"""
    if 2 * i + 1 >= len(table):
        return []
    od = table[2 * i]
    ld = table[2 * i + 1]
    if ld >= 128:
        ld = ld - 256
    nend = end + od
    nl = line
    isnone = 1
    disp = 0
    if ld != 0 - 128:
        nl = line + ld
        isnone = 0
        disp = nl
    if od == 0:
        return lt310(table, i + 1, nend, nl, which)
    x = end
    if which == 1:
        x = nend
    if which == 2:
        x = isnone
    if which == 3:
        x = disp
    return [x] + lt310(table, i + 1, nend, nl, which)


def lines310(table, first):
    cols = [lt310(table, 0, 0, first, w) for w in range(4)]
    return [(s, e, None if n else l) for s, e, n, l in zip(*cols)]


@spec
def cl_out(starts: IntList, nones: IntList, lines: IntList, i: int, has: bool, last: int, which: int) -> IntSeq:
    """3.10 - 3.12 dis.findlinestarts over the co_lines() triples from index i (lastline = last if has else None)"""
    if i >= len(starts):
        return []
    if i < 0:
        return []
    if nones[i] == 0 and ((not has) or lines[i] != last):
        return [starts[i] if which == 0 else lines[i]] + cl_out(starts, nones, lines, i + 1, True, lines[i], which)
    return cl_out(starts, nones, lines, i + 1, has, last, which)


@spec
def cl13_out(starts: IntList, nones: IntList, lines: IntList, i: int, state: int, last: int, which: int) -> IntSeq:
    """3.13 dis.findlinestarts: state 0 = lastline is False (nothing reported yet), 1 = lastline is None,
    2 = lastline is the int `last`.  Components: 0 start, 1 line-is-None (0/1), 2 line or 0."""
    if i >= len(starts):
        return []
    if i < 0:
        return []
    if nones[i] != 0:
        if state == 1:
            return cl13_out(starts, nones, lines, i + 1, 1, 0, which)
        x = starts[i]
        if which == 1:
            x = 1
        if which == 2:
            x = 0
        return [x] + cl13_out(starts, nones, lines, i + 1, 1, 0, which)
    if state == 2 and lines[i] == last:
        return cl13_out(starts, nones, lines, i + 1, 2, last, which)
    y = starts[i]
    if which == 1:
        y = 0
    if which == 2:
        y = lines[i]
    return [y] + cl13_out(starts, nones, lines, i + 1, 2, lines[i], which)


def starts_310(rows):
    st = [r[0] for r in rows]; no = [1 if r[2] is None else 0 for r in rows]; li = [0 if r[2] is None else r[2] for r in rows]
    return list(zip(cl_out(st, no, li, 0, False, 0, 0), cl_out(st, no, li, 0, False, 0, 1)))


def starts_313(rows):
    st = [r[0] for r in rows]; no = [1 if r[2] is None else 0 for r in rows]; li = [0 if r[2] is None else r[2] for r in rows]
    cols = [cl13_out(st, no, li, 0, 0, 0, w) for w in range(3)]
    return [(s, None if n else l) for s, n, l in zip(*cols)]
