"""The marshal format as Python/marshal.c defines it (type codes and per-type layout), used as the structural
specification of xdis's unmarshaller (C01, C10).

Type codes (marshal.c):  '0' NULL  'N' None  'F' False  'T' True  'S' StopIteration  '.' Ellipsis
  'i' int32  'I' int64 (2.x)  'f' float text  'g' float binary  'x' complex text  'y' complex binary
  'l' long (15-bit digits)  's' string/bytes  't' interned  'R' stringref  'u' unicode(utf-8)
  'a' ascii  'A' ascii interned  'z' short ascii  'Z' short ascii interned
  '(' tuple  ')' small tuple  '[' list  '{' dict  '<' set  '>' frozenset  'c' code  'r' ref  '?' unknown
FLAG_REF = 0x80 on the type byte (marshal version >= 3): the object is appended to the reference table; for
containers and code the slot is reserved *before* the children are read (r_ref_reserve) and filled afterwards.
"""

# type code -> reader kind (name of the xdis method that must be dispatched to, without the t_ prefix)
DISPATCH = {
    "0": "C_NULL", "N": "None", "S": "stopIteration", ".": "Ellipsis", "F": "False", "T": "True",
    "i": "int32", "l": "long", "I": "int64", "f": "float", "g": "binary_float", "x": "complex", "y": "binary_complex",
    "s": "string", "A": "ASCII_interned", "a": "ASCII", "z": "short_ASCII", "Z": "short_ASCII_interned", "t": "interned",
    "u": "unicode", ")": "small_tuple", "(": "tuple", "[": "list", "<": "set", ">": "frozenset", "{": "dict",
    "R": "python2_string_reference", "c": "code", "r": "object_reference", "?": "unknown",
}

# length-prefixed byte payloads: type code -> (width of the length field, interned into the string table?)
STRINGS = {"s": (4, False), "t": (4, True), "u": (4, False), "a": (4, False), "A": (4, True), "z": (1, False), "Z": (1, True)}

# counted containers: type code -> (width of the count field, slot reserved before the children?)
CONTAINERS = {")": (1, True), "(": (4, True), "[": (4, True), "<": (4, True), ">": (4, True)}


def code_layout(version):
    """sequence of reads of a code object for a bytecode version: ('i32'|'i16', field) or ('obj', field)"""
    v = tuple(version[:2])
    w = "i32" if v >= (2, 3) else "i16"
    out = []
    if v >= (1, 3):
        out.append((w, "co_argcount"))
    if v >= (3, 8):
        out.append(("i32", "co_posonlyargcount"))
    if v >= (3, 0):
        out.append(("i32", "co_kwonlyargcount"))
    if v < (3, 11) and v >= (1, 3):
        out.append((w, "co_nlocals"))
    if v >= (1, 5):
        out.append((w, "co_stacksize"))
    if v >= (1, 3):
        out.append((w, "co_flags"))
    out += [("obj", "co_code"), ("obj", "co_consts"), ("obj", "co_names")]
    if v >= (3, 11):
        out += [("obj", "co_localsplusnames"), ("obj", "co_localspluskinds"), ("obj", "co_filename"), ("obj", "co_name"), ("obj", "co_qualname"),
                ("i32", "co_firstlineno"), ("obj", "co_linetable"), ("obj", "co_exceptiontable")]
        return out
    if v >= (1, 3):
        out.append(("obj", "co_varnames"))
    if v >= (2, 1):
        out += [("obj", "co_freevars"), ("obj", "co_cellvars")]
    out += [("obj", "co_filename"), ("obj", "co_name")]
    if v >= (1, 5):
        out += [(w, "co_firstlineno"), ("obj", "co_lnotab")]
    return out
