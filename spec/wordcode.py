"""Instruction decoding as CPython's dis does it (`_unpack_opargs` of each version family).

Sources transliterated (Lib/dis.py):
  2.x .. 3.5  : disassemble(): op = code[i]; i += 1; if op >= HAVE_ARGUMENT: oparg = code[i] + code[i+1]*256 +
                extended_arg; extended_arg = 0; i += 2; if op == EXTENDED_ARG: extended_arg = oparg*65536
  3.6 .. 3.10 : _unpack_opargs: for i in range(0, len(code), 2): op = code[i]; if op >= HAVE_ARGUMENT:
                arg = code[i+1] | extended_arg; extended_arg = (arg << 8) if op == EXTENDED_ARG else 0
                else: arg = None            (extended_arg is *not* reset on argument-less opcodes)
  3.11 .. 3.13: as above, but inline CACHE words that follow an instruction are skipped (not yielded),
                `op in hasarg` decides whether there is an operand from 3.12, and an argument-less opcode
                resets extended_arg.
All functions are indexed by the instruction ordinal k (pointwise form).
"""
from pyvc.spec import spec, Bytes, IntSet, IntList
from pyvc.sym import And, Implies, Len


# ---------------------------------------------------------------- 3.6+ word code: word k is at offset 2k
@spec(lemma=lambda r, code, k, have, ext: And(r >= 0, r % 256 == 0))
def w_ext(code: Bytes, k: int, have: int, ext: int) -> int:
    """3.6 - 3.10: extended_arg in effect when word k is decoded"""
    if k <= 0:
        return 0
    op = code[2 * k - 2]
    if op >= have:
        if op == ext:
            return (code[2 * k - 1] + w_ext(code, k - 1, have, ext)) * 256
        return 0
    return w_ext(code, k - 1, have, ext)


@spec
def w_arg(code: Bytes, k: int, have: int, ext: int) -> int:
    """3.6 - 3.10: operand of word k (only meaningful when code[2k] >= have)"""
    return code[2 * k + 1] + w_ext(code, k, have, ext)


# ---------------------------------------------------------------- 3.11+: caches
@spec(lemma=lambda r, code, k, ctab: r >= 0)
def c_skip(code: Bytes, k: int, ctab: IntList) -> int:
    """3.11+: number of inline cache words still to be skipped when _unpack_opargs reaches word k
    (0 <=> word k is an instruction).  ctab[op] = number of inline cache entries of opcode op."""
    if k <= 0:
        return 0
    s = c_skip(code, k - 1, ctab)
    if s > 0:
        return s - 1
    c = ctab[code[2 * k - 2]]
    if c < 0:
        return 0
    return c


@spec(lemma=lambda r, code, k, hasarg, ext, ctab: And(r >= 0, r % 256 == 0))
def c_ext(code: Bytes, k: int, hasarg: IntSet, ext: int, ctab: IntList) -> int:
    """3.11+: extended_arg in effect when word k is reached"""
    if k <= 0:
        return 0
    e = c_ext(code, k - 1, hasarg, ext, ctab)
    if c_skip(code, k - 1, ctab) > 0:
        return e
    op = code[2 * k - 2]
    if op in hasarg:
        if op == ext:
            return (code[2 * k - 1] + e) * 256
        return 0
    return 0


# ---------------------------------------------------------------- < 3.6 byte code
@spec(lemma=lambda r, code, k, have: And(r >= 0, Implies(k >= 0, r >= k)))
def b_off(code: Bytes, k: int, have: int) -> int:
    """offset of instruction k"""
    if k <= 0:
        return 0
    o = b_off(code, k - 1, have)
    if o < len(code) and code[o] >= have:
        return o + 3
    return o + 1


@spec(lemma=lambda r, code, o, have: r >= 0)
def b_cnt(code: Bytes, o: int, have: int) -> int:
    """number of instructions from offset o to the end of the code"""
    if o >= len(code):
        return 0
    if o < 0:
        return 0
    if code[o] >= have:
        return 1 + b_cnt(code, o + 3, have)
    return 1 + b_cnt(code, o + 1, have)


@spec(lemma=lambda r, code, k, have, ext: And(r >= 0, r % 65536 == 0))
def b_ext(code: Bytes, k: int, have: int, ext: int) -> int:
    """extended_arg in effect when instruction k is decoded (ext == -1: the version has no EXTENDED_ARG)"""
    if k <= 0:
        return 0
    o = b_off(code, k - 1, have)
    op = code[o]
    if op >= have:
        if op == ext:
            return (code[o + 1] + code[o + 2] * 256 + b_ext(code, k - 1, have, ext)) * 65536
        return 0
    return b_ext(code, k - 1, have, ext)


@spec
def b_arg(code: Bytes, k: int, have: int, ext: int) -> int:
    o = b_off(code, k, have)
    return code[o + 1] + code[o + 2] * 256 + b_ext(code, k, have, ext)


# ---------------------------------------------------------------- native whole-sequence forms (replay / adequacy)
def decode_words(code, have, ext):
    """3.6-3.10: list of (offset, op, arg-or-None)"""
    out = []
    for k in range(len(code) // 2):
        op = code[2 * k]
        out.append((2 * k, op, w_arg(code, k, have, ext) if op >= have else None))
    return out


def decode_bytes(code, have, ext):
    out = []
    n = b_cnt(code, 0, have)
    for k in range(n):
        o = b_off(code, k, have)
        op = code[o]
        out.append((o, op, b_arg(code, k, have, ext) if op >= have else None))
    return out


# ---------------------------------------------------------------- one *logical* instruction: EXTENDED_ARG prefixes + instruction
@spec(lemma=lambda r, code, off, j: And(r >= 0, r % 256 == 0))
def g_ext(code: Bytes, off: int, j: int) -> int:
    """word code: extended_arg in effect at the j-th word of a group that starts at byte offset off
    (words off, off+2, ... off+2(j-1) are EXTENDED_ARG)"""
    if j <= 0:
        return 0
    return (code[off + 2 * j - 1] + g_ext(code, off, j - 1)) * 256


@spec(lemma=lambda r, code, off, have, ext: And(r >= 0, Implies(And(off >= 0, off < Len(code), off % 2 == 0, Len(code) % 2 == 0),
                                                                 And(r >= 1, off + 2 * r <= Len(code)))))
def g_len(code: Bytes, off: int, have: int, ext: int) -> int:
    """word code: number of words of the logical instruction starting at off (0 past the end)"""
    if off >= len(code):
        return 0
    if off < 0:
        return 0
    if code[off] == ext and code[off] >= have:
        return 1 + g_len(code, off + 2, have, ext)
    return 1


@spec(lemma=lambda r, code, off, j: And(r >= 0, r % 65536 == 0))
def gb_ext(code: Bytes, off: int, j: int) -> int:
    """byte code (< 3.6): extended_arg at the j-th instruction of a group starting at off (3-byte EXTENDED_ARGs)"""
    if j <= 0:
        return 0
    return (code[off + 3 * j - 2] + code[off + 3 * j - 1] * 256 + gb_ext(code, off, j - 1)) * 65536


@spec(lemma=lambda r, code, off, have, ext: r >= 0)
def gb_len(code: Bytes, off: int, have: int, ext: int) -> int:
    if off >= len(code):
        return 0
    if off < 0:
        return 0
    if code[off] == ext and code[off] >= have:
        return 1 + gb_len(code, off + 3, have, ext)
    return 1


@spec(lemma=lambda r, code, off, have, ext: Implies(off >= 0, r >= off))
def gb_end(code: Bytes, off: int, have: int, ext: int) -> int:
    """byte code: offset just after the logical instruction starting at off"""
    if off >= len(code):
        return off
    if off < 0:
        return off
    if code[off] >= have:
        if code[off] == ext:
            return gb_end(code, off + 3, have, ext)
        return off + 3
    return off + 1
