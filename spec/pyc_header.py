"""Layout of the .pyc header by bytecode version (importlib/_bootstrap_external.py: _classify_pyc,
_code_to_timestamp_pyc, _code_to_hash_pyc; PEP 3147 / PEP 552; Python/import.c of 2.x):

   version <  3.3 : magic(4) mtime(4)                                   code at 8
   3.3 .. 3.6     : magic(4) mtime(4) source_size(4)                     code at 12
   >= 3.7         : magic(4) flags(4)  then  flags & 1 (hash based; flags 1 = unchecked, 3 = checked):
                        siphash(8)                                        code at 16
                    flags == 0: mtime(4) source_size(4)                  code at 16
                    any other flags word is rejected by CPython ("invalid flags"): no demand.
Which version a magic belongs to comes from CPython's registry (spec/ref/magic_registry.json) for the final
releases, and from the directory the file sits in for the PyPy files of /repo/test (no other oracle)."""

# final-release magics (registry) -> (major, minor)
FINAL_MAGICS = {
    39170: (1, 0), 39171: (1, 1), 11913: (1, 3), 5892: (1, 4), 20121: (1, 5), 50428: (1, 6),
    50823: (2, 0), 60202: (2, 1), 60717: (2, 2), 62011: (2, 3), 62061: (2, 4), 62131: (2, 5), 62161: (2, 6), 62211: (2, 7),
    3131: (3, 0), 3151: (3, 1), 3180: (3, 2), 3230: (3, 3), 3310: (3, 4), 3350: (3, 5), 3351: (3, 5), 3379: (3, 6),
    3394: (3, 7), 3413: (3, 8), 3425: (3, 9), 3439: (3, 10), 3495: (3, 11), 3531: (3, 12), 3571: (3, 13),
}
# PyPy files of the historical corpus (/repo/test/bytecode_*pypy*): magic -> (version, is_pypy)
PYPY_MAGICS = {62218: (2, 7), 48: (3, 2), 112: (3, 5), 160: (3, 6), 192: (3, 6), 240: (3, 7)}


def family(version):
    if version < (3, 3):
        return "ts"
    if version < (3, 7):
        return "ts_size"
    return "pep552"


def le(data, off, n):
    """little-endian unsigned integer of n bytes at offset off (works for symbolic data)"""
    v = data[off]
    for j in range(1, n):
        v = v + data[off + j] * (1 << (8 * j))
    return v
