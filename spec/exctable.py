"""3.11+ exception table (co_exceptiontable) as CPython's dis._parse_exception_table reads it.

Source transliterated: Lib/dis.py `_parse_varint`, `_parse_exception_table` (3.11 - 3.13) and
Objects/exception_handling_notes.txt: entries are 4 big-endian base-64 varints (bit 6 = continuation):
start, length, target (in code units) and depth<<1 | lasti.  Forward recursive over the read position.
"""
from pyvc.spec import spec, Bytes, IntSeq


@spec
def bev(data: Bytes, p: int, val: int, b: int) -> (bool, int, int):
    """finish a varint: b = last byte read, val = value so far, p = next read position.
    -> (complete?, value, position after the varint)"""
    if (b & 64) == 0:
        return (True, val, p)
    if p >= len(data):
        return (False, 0, p)
    nb = data[p]
    return bev(data, p + 1, val * 64 + (nb & 63), nb)


@spec
def be_varint(data: Bytes, p: int) -> (bool, int, int):
    if p >= len(data):
        return (False, 0, p)
    return bev(data, p + 1, data[p] & 63, data[p])


@spec
def exc_seq(data: Bytes, p: int, which: int) -> IntSeq:
    """field `which` (0 start, 1 end, 2 target, 3 depth, 4 lasti as 0/1) of every complete entry from p on"""
    ok1, v1, p1 = be_varint(data, p)
    if not ok1:
        return []
    ok2, v2, p2 = be_varint(data, p1)
    if not ok2:
        return []
    ok3, v3, p3 = be_varint(data, p2)
    if not ok3:
        return []
    ok4, v4, p4 = be_varint(data, p3)
    if not ok4:
        return []
    start = v1 * 2
    x = start
    if which == 1:
        x = start + v2 * 2
    if which == 2:
        x = v3 * 2
    if which == 3:
        x = v4 >> 1
    if which == 4:
        x = v4 & 1
    return [x] + exc_seq(data, p4, which)


def entries(data):
    """native: list of (start, end, target, depth, lasti)"""
    cols = [exc_seq(data, 0, w) for w in range(5)]
    return [(a, b, c, d, bool(e)) for a, b, c, d, e in zip(*cols)]
