"""Reference opcode data: CPython's own `opcode`/`dis` tables dumped by tools/oracle_dump.py from the
installed interpreters (2.7, 3.6-3.13).  For versions / variants without an interpreter in the sandbox the
reference is xdis's own table (then obligations are 'relative to C09', and the evidence says so)."""
import json
import os

HERE = os.path.dirname(os.path.abspath(__file__))
_CACHE = {}


def oracle(ver):
    if ver not in _CACHE:
        p = os.path.join(HERE, "ref", "oracle_%s.json" % ver)
        _CACHE[ver] = json.load(open(p)) if os.path.exists(p) else None
    return _CACHE[ver]


class Ref(object):
    pass


def ref_for(opc):
    """reference tables for an xdis opcode module"""
    vt = tuple(opc.version_tuple[:2])
    ver = "%d.%d" % vt
    o = None if opc.is_pypy else oracle(ver)
    r = Ref()
    r.version = vt
    r.is_pypy = bool(opc.is_pypy)
    if o is not None:
        t = o["opcode"]
        r.source = "cpython-%s" % ".".join(str(x) for x in o["version"])
        r.opmap = dict(t["opmap"])
        r.opname = list(t["opname"])
        r.have_argument = t["HAVE_ARGUMENT"]
        r.extended_arg = t["EXTENDED_ARG"]
        for k in ("hasjrel", "hasjabs", "hasconst", "hasname", "haslocal", "hasfree", "hascompare"):
            setattr(r, k, frozenset(x for x in t.get(k, []) if x < 256))
        r.cmp_op = tuple(t["cmp_op"])
        if "hasarg" in t:
            r.hasarg = frozenset(x for x in t["hasarg"] if x < 256)
        else:
            r.hasarg = frozenset(x for x in r.opmap.values() if x >= r.have_argument and x < 256)
        ice = t.get("inline_cache_entries", {})
        r.caches = dict((r.opmap[n], c) for n, c in ice.items() if n in r.opmap and r.opmap[n] < 256)
    else:
        r.source = "xdis-own-table (no CPython %s%s in the sandbox; relative to C09)" % (ver, "pypy" if opc.is_pypy else "")
        r.opmap = dict(opc.opmap)
        r.opname = list(opc.opname)
        r.have_argument = opc.HAVE_ARGUMENT
        r.extended_arg = getattr(opc, "EXTENDED_ARG", None)
        for k in ("hasjrel", "hasjabs", "hasconst", "hasname", "haslocal", "hasfree", "hascompare"):
            setattr(r, k, frozenset(getattr(opc, k)))
        r.cmp_op = tuple(opc.cmp_op)
        r.hasarg = frozenset(x for x in range(256) if x >= opc.HAVE_ARGUMENT)
        r.caches = {}
    # which relative jumps go backwards (dis._is_backward_jump): 3.11/3.12: 'JUMP_BACKWARD' in opname;
    # 3.13: opname in (JUMP_BACKWARD, JUMP_BACKWARD_NO_INTERRUPT)
    if vt >= (3, 13):
        r.backward = frozenset(op for n, op in r.opmap.items() if n in ("JUMP_BACKWARD", "JUMP_BACKWARD_NO_INTERRUPT") and op < 256)
    elif vt >= (3, 11):
        r.backward = frozenset(op for n, op in r.opmap.items() if "JUMP_BACKWARD" in n and op < 256)
    else:
        r.backward = frozenset()
    # family of the instruction encoding
    if vt < (3, 6):
        r.family = "b"          # 1 or 3 byte instructions, 16-bit operands, EXTENDED_ARG << 16
    elif vt < (3, 10):
        r.family = "w"          # 2-byte words, jumps in bytes
    elif vt < (3, 11):
        r.family = "w10"        # jumps in words
    else:
        r.family = "w11"        # + backward jumps, inline caches
    # dis adds the jump's own inline cache entries to the target from 3.12 (findlabels: `label += 2 * caches`)
    r.caches_in_targets = vt >= (3, 12)
    return r


def all_tables():
    """{label: xdis opcode module} for every distinct table reachable through op_imports"""
    from xdis.op_imports import op_imports
    out = {}
    for m in op_imports.values():
        lb = m.__name__.split(".")[-1].replace("opcode_", "")
        out[lb] = m
    return dict(sorted(out.items()))
