"""Bounded differential for the unmarshaller (stand-in for the parts of C01/C10 that are not under a deductive
contract: list/dict readers, float text, value *contents*): xdis.unmarshal.load_code against the real marshal.

 (a) host marshal (the checking interpreter): generated plain values and compiled code objects, marshal format
     versions 0-4 where the host can write them;
 (b) the code objects the nine installed interpreters marshalled (spec/ref/oracle_*.json), compared field by field.
Labelled bounded; a disagreement here is a VIOLATION with the input as replay (the oracle is the real marshal)."""
import binascii
import io
import json
import marshal
import os
import random
import sys
import types

HERE = os.path.dirname(os.path.dirname(os.path.abspath(__file__)))

SRC = '''
def f(tag, x):
    if tag in {b"GIF8", b"PNG", b"\\xff\\xfe"}: return 1
    if x in {1, 2, 3}: return (0xFFFFFFFF, 2**31, -2**31, 2**63, 2**100, -2**100, 1.5, -0.0, 1e300, 1+2j)
    s = ("abc", "\\u00e9", "\\u20ac", "\\U0001F600", "\\ud800x", b"bytes", "a" * 300, None, True, Ellipsis)
    t = tuple(range(300)); u = t
    return (s, t, u, frozenset({"a", "b"}), {1: None}.get(1), [1, [2, 3]])
def g(a, b=1, *c, d=2, **e):
    def h(): return a + b
    return h
class K:
    def m(self): return __class__
'''


def same(a, b, path="v"):
    """structural equality incl. kind; returns None or a description of the first difference"""
    if isinstance(a, types.CodeType) or hasattr(a, "co_code") and not isinstance(a, types.CodeType):
        if not hasattr(b, "co_code"):
            return "%s: code vs %s" % (path, type(b).__name__)
        for f in ("co_argcount", "co_kwonlyargcount", "co_posonlyargcount", "co_nlocals", "co_stacksize", "co_flags", "co_code", "co_names", "co_varnames",
                  "co_freevars", "co_cellvars", "co_filename", "co_name", "co_qualname", "co_firstlineno", "co_linetable", "co_exceptiontable"):
            if hasattr(a, f):
                if not hasattr(b, f):
                    return "%s.%s missing" % (path, f)
                r = same(getattr(a, f), getattr(b, f), "%s.%s" % (path, f))
                if r:
                    return r
        return same(tuple(a.co_consts), tuple(b.co_consts), path + ".co_consts")
    if type(a) is not type(b):
        return "%s: kind %s vs %s (%r vs %r)" % (path, type(a).__name__, type(b).__name__, a, b)
    if isinstance(a, (tuple, list)):
        if len(a) != len(b):
            return "%s: length %d vs %d" % (path, len(a), len(b))
        for i, (x, y) in enumerate(zip(a, b)):
            r = same(x, y, "%s[%d]" % (path, i))
            if r:
                return r
        return None
    if isinstance(a, (set, frozenset)):
        if len(a) != len(b) or sorted(map(repr, a)) != sorted(map(repr, b)):
            return "%s: set contents %r vs %r" % (path, a, b)
        for x in a:
            if not any(type(x) is type(y) and x == y for y in b):
                return "%s: element kind %r" % (path, x)
        return None
    if isinstance(a, dict):
        if len(a) != len(b):
            return "%s: dict size %d vs %d" % (path, len(a), len(b))
        for k in a:
            if k not in b:
                return "%s: key %r missing" % (path, k)
            r = same(a[k], b[k], "%s[%r]" % (path, k))
            if r:
                return r
        return None
    if isinstance(a, float):
        import struct
        return None if struct.pack("<d", a) == struct.pack("<d", b) else "%s: float bits %r vs %r" % (path, a, b)
    if isinstance(a, complex):
        return same(a.real, b.real, path + ".real") or same(a.imag, b.imag, path + ".imag")
    return None if a == b else "%s: %r vs %r" % (path, a, b)


def gen_value(rng, depth=0):
    k = rng.randrange(16 if depth < 3 else 10)
    if k == 0: return None
    if k == 1: return rng.choice([True, False, Ellipsis, StopIteration])
    if k == 2: return rng.choice([0, 1, -1, 255, 2**15, 2**31 - 1, -2**31, 2**31, 2**32 - 1, 2**63, -2**63 - 1, 2**100, rng.randrange(-2**70, 2**70)])
    if k == 3: return rng.choice([1.5, -0.0, float("inf"), 1e300, 5e-324, rng.random()])
    if k == 4: return complex(rng.random(), -rng.random())
    if k == 5: return bytes(rng.randrange(256) for _ in range(rng.choice([0, 1, 5, 300])))
    if k in (6, 7): return rng.choice(["", "abc", "é", "€\U0001F600", "\ud800x", "a" * 300, "z" * rng.randrange(10)])
    if k in (8, 9): return rng.randrange(-5, 300)
    n = rng.choice([0, 1, 2, 3, 300 if depth == 0 else 2])
    if k in (10, 11): return tuple(gen_value(rng, depth + 1) for _ in range(n))
    if k == 12: return [gen_value(rng, depth + 1) for _ in range(n)]
    if k == 13: return frozenset(rng.choice([1, "a", b"b", 2.5, None, (1, 2)]) for _ in range(n))
    if k == 14: return set(rng.choice([1, "a", b"b", 2.5, None]) for _ in range(n))
    return dict((rng.choice([1, "k", None, (1, 2)]), gen_value(rng, depth + 1)) for _ in range(n))


def check(tier="quick", seed=0):
    from xdis.unmarshal import load_code
    from xdis.magics import magic2int, PYTHON_MAGIC_INT
    vio = []
    n = 0
    samples = []
    host_magic = PYTHON_MAGIC_INT
    rng = random.Random(seed or 1)
    # (a1) plain values nested in a tuple with a shared sub-object, all marshal versions of the host
    count = 300 if tier == "quick" else 5000
    for i in range(count):
        v = gen_value(rng)
        shared = (v, v, [v])
        for ver in (4, 3, 2, 1, 0):
            try:
                data = marshal.dumps(shared, ver)
            except ValueError:
                continue
            n += 1
            want = marshal.loads(data)
            try:
                # values are read as constants of a code object: wrap so that bytes_for_s is what t_code uses
                got = load_code(io.BytesIO(data), host_magic, True if False else False)
            except Exception as e:
                got = e
            if isinstance(got, Exception):
                vio.append({"name": "C10/bounded/host-marshal-values", "key": "exception", "input": binascii.hexlify(data).decode()[:400], "detail": repr(got)[:200], "version": ver})
                continue
            # top-level (outside a code object) xdis decodes 's' payloads as text by design: compare through str()
            d = same(_norm(want), _norm(got))
            if d:
                vio.append({"name": "C10/bounded/host-marshal-values", "key": d.split(":")[0], "input": binascii.hexlify(data).decode()[:400], "detail": d, "version": ver})
            if len(samples) < 3:
                samples.append({"value": repr(v)[:80], "marshal_version": ver})
    # (a1') hand-assembled encodings the format permits but marshal.dumps never emits
    import struct
    hand = []
    for v in (0, 1, -1, 2**31 - 1, 2**31, 2**32 - 1, -2**31, 2**63 - 1, -2**63, 0x1FFFFFFFF, 0xFFFFFFFF00000000 - 2**64):
        hand.append(b"I" + struct.pack("<q", v))
    t = marshal.dumps(tuple(range(5)), 2)
    hand.append(b"(" + struct.pack("<i", 2) + bytes([t[0] | 0x80]) + t[1:] + b"r" + struct.pack("<i", 0))        # FLAG_REF on '(' + back reference
    hand.append(b"(" + struct.pack("<i", 2) + b"\xbc" + struct.pack("<i", 1) + b"i" + struct.pack("<i", 7) + b"r" + struct.pack("<i", 0))   # FLAG_REF on '<'
    hand.append(b"{" + b"i" + struct.pack("<i", 1) + b"N" + b"N" + b"i" + struct.pack("<i", 2) + b"0")              # None as value and as key
    hand.append(b"f\x031.5")
    hand.append(b"x\x031.5\x04-2.0")
    hand.append(b"l" + struct.pack("<i", 0))
    hand.append(b"l" + struct.pack("<i", -2) + struct.pack("<HH", 1, 32767))
    hand.append(b"[" + struct.pack("<i", 3) + b"N" + b"T" + b"F")
    hand.append(b")" + b"\x02" + b"\xda\x01a" + b"r" + struct.pack("<i", 0))                                       # short ascii interned with FLAG_REF + ref
    for data in hand:
        n += 1
        try:
            want = marshal.loads(data)
        except Exception:
            continue
        try:
            got = load_code(io.BytesIO(data), host_magic)
            d = same(_norm(want), _norm(got))
        except Exception as e:
            d = "exception %r" % (e,)
        if d:
            vio.append({"name": "C10/bounded/hand-assembled", "key": d.split(":")[0][:40], "input": binascii.hexlify(data).decode(), "detail": d})
        # numeric encodings mean the same in Python 2 files: read them with the 2.7 and 2.4 magics as well
        if data[:1] in (b"I", b"f", b"x", b"l") and isinstance(want, (int, float, complex)):
            for mi2 in (62211, 62061):
                n += 1
                try:
                    got2 = load_code(io.BytesIO(data), mi2)
                    ok2 = (got2 == want) and isinstance(got2, (int, float, complex))
                except Exception as e:
                    got2, ok2 = repr(e), False
                if not ok2:
                    vio.append({"name": "C10/bounded/hand-assembled-py2-magic", "key": "%s@%d" % (data[:1].decode(), mi2), "input": binascii.hexlify(data).decode(),
                                "detail": "xdis %r vs marshal %r" % (got2, want)})
    # (a2) compiled code objects of the host
    co = compile(SRC, "<src>", "exec")
    data = marshal.dumps(co)
    n += 1
    try:
        got = load_code(io.BytesIO(data), host_magic)
        d = same(co, got)
    except Exception as e:
        d = "exception %r" % (e,)
    if d:
        vio.append({"name": "C01/bounded/host-code-object", "key": d[:60], "detail": d, "input": binascii.hexlify(data).decode()[:200]})
    # (b) code objects marshalled by the nine interpreters
    for ver in ("2.7", "3.6", "3.7", "3.8", "3.9", "3.10", "3.11", "3.12", "3.13"):
        p = os.path.join(HERE, "spec", "ref", "oracle_%s.json" % ver)
        if not os.path.exists(p):
            continue
        o = json.load(open(p))
        mi = magic2int(binascii.unhexlify(o["magic"]))
        for prog, cos in sorted(o["programs"].items()):
            for idx, dct in enumerate(cos):
                n += 1
                raw = binascii.unhexlify(dct["marshal"])
                fp = io.BytesIO(raw)
                try:
                    c = load_code(fp, mi)
                except Exception as e:
                    vio.append({"name": "C01/bounded/oracle-%s" % ver, "key": "%s#%d" % (prog, idx), "detail": "exception %r" % (e,)})
                    continue
                if fp.tell() != len(raw):
                    vio.append({"name": "C01/bounded/oracle-%s" % ver, "key": "%s#%d" % (prog, idx), "detail": "payload not consumed exactly: %d of %d" % (fp.tell(), len(raw))})
                for f in ("co_argcount", "co_nlocals", "co_stacksize", "co_flags", "co_firstlineno", "co_kwonlyargcount", "co_posonlyargcount", "co_name", "co_qualname", "co_filename"):
                    if f in dct and hasattr(c, f) and str(getattr(c, f)) != str(dct[f]):
                        vio.append({"name": "C01/bounded/oracle-%s" % ver, "key": "%s#%d.%s" % (prog, idx, f), "detail": "%r vs CPython %r" % (getattr(c, f), dct[f])})
                for f in ("co_names", "co_varnames", "co_freevars", "co_cellvars"):
                    if f in dct and [str(x) for x in getattr(c, f)] != dct[f]:
                        vio.append({"name": "C01/bounded/oracle-%s" % ver, "key": "%s#%d.%s" % (prog, idx, f), "detail": "%r vs CPython %r" % (getattr(c, f), dct[f])})
                for f in ("co_code", "co_lnotab", "co_linetable", "co_exceptiontable"):
                    if f in dct and dct[f] is not None and hasattr(c, f) and ver != "2.7":
                        gotb = getattr(c, f)
                        if isinstance(gotb, (bytes, bytearray)) and binascii.hexlify(gotb).decode() != dct[f] and not (f == "co_lnotab" and ver in ("3.10", "3.11", "3.12", "3.13")):
                            vio.append({"name": "C01/bounded/oracle-%s" % ver, "key": "%s#%d.%s" % (prog, idx, f), "detail": "bytes differ"})
                want_consts = dct["co_consts"]
                got_consts = [("<code %s>" % x.co_name) if hasattr(x, "co_code") else repr(x) for x in c.co_consts]
                if ver != "2.7" and [w for w in want_consts if "frozenset" not in w] != [g for g in got_consts if "frozenset" not in g]:
                    vio.append({"name": "C01/bounded/oracle-%s" % ver, "key": "%s#%d.co_consts" % (prog, idx), "detail": "%r vs CPython %r" % (got_consts[:6], want_consts[:6])})
    return {"name": "ground.unmarshal_diff", "kind": "bounded", "bound": "%d generated plain values x marshal versions 0-4 (host marshal) + host code object + code objects of 12 programs x 9 interpreters" % count,
            "evaluations": n, "violations": vio[:20], "obligations": [], "samples": samples,
            "assumptions": ["oracle = the real marshal of the checking interpreter (values) and the field dumps of the nine installed interpreters (code objects)"]}


def _norm(v):
    """xdis reads top-level 's' payloads (outside a code object) as text when they are valid UTF-8: compare modulo that"""
    if isinstance(v, bytes):
        try:
            return v.decode("utf-8")
        except UnicodeDecodeError:
            return v
    if isinstance(v, tuple):
        return tuple(_norm(x) for x in v)
    if isinstance(v, list):
        return [_norm(x) for x in v]
    if isinstance(v, frozenset):
        return frozenset(_norm(x) for x in v)
    if isinstance(v, set):
        return set(_norm(x) for x in v)
    if isinstance(v, dict):
        return dict((_norm(k), _norm(x)) for k, x in v.items())
    return v
