"""C09: ground data-structure invariants over every opcode table of /repo's current xdis.opcodes, and
equality with CPython's own `opcode` module (spec/ref/oracle_<v>.json) for 2.7 and 3.6 - 3.13.
Finite: every table x every opcode number x every category set is evaluated."""
import os
import json

CATS = ("hasjrel", "hasjabs", "hasconst", "hasname", "haslocal", "hasfree", "hascompare")


def check(tier="quick", seed=0):
    from spec import reftables
    obl = []
    vio = []

    def ob(name, ok, key=None, detail=None):
        obl.append({"name": "C09/" + name, "status": "discharged" if ok else "refuted", "backend": "evaluation", "time_s": 0})
        if not ok:
            vio.append({"name": "C09/" + name, "key": key, "detail": detail})

    tabs = reftables.all_tables()
    ob("tables-found", len(tabs) >= 39, detail={"n": len(tabs)})
    for lb, opc in tabs.items():
        vt = tuple(opc.version_tuple[:2])
        ver = "%d.%d" % vt
        ref = None if opc.is_pypy else reftables.oracle(ver)
        rt = ref["opcode"] if ref else None
        # --- bijection names <-> numbers on defined opcodes
        opmap = dict(opc.opmap)
        opname = list(opc.opname)
        nums = list(opmap.values())
        dup = sorted(set(x for x in nums if nums.count(x) > 1))
        ob("%s/opmap-injective" % lb, not dup, key=lb, detail={"duplicate numbers": dup})
        bad = [(n, k) for n, k in opmap.items() if not (0 <= k < len(opname)) or opname[k].replace("+", "_") != n.replace("+", "_")]
        ob("%s/opname[opmap[n]]==n" % lb, not bad, key=lb, detail={"bad": bad[:5]})
        defined = set(nums)
        undefined_named = [(k, nm) for k, nm in enumerate(opname) if k not in defined and not (nm.startswith("<") and nm.endswith(">"))]
        ob("%s/undefined-slots-are-placeholders" % lb, not undefined_named, key=lb, detail={"bad": undefined_named[:5]})
        # --- categorised opcodes are defined and take an operand (unless CPython's table has the same gap)
        have = opc.HAVE_ARGUMENT
        hasarg = set(getattr(opc, "hasarg", [])) if vt >= (3, 12) and hasattr(opc, "hasarg") else None
        for cat in CATS:
            lst = list(getattr(opc, cat))
            refcat = set(rt.get(cat, [])) if rt else set()
            for k in lst:
                if k >= 256:
                    continue
                okdef = k in defined or (k in refcat and rt and k not in rt["opmap"].values())
                ob("%s/%s/%d-defined" % (lb, cat, k), okdef, key="%s:%s:%d" % (lb, cat, k), detail={"opname": opname[k] if k < len(opname) else None})
                takes = (k >= have) if hasarg is None else (k in hasarg or k >= have)
                same_gap = bool(rt) and k in refcat and k < rt["HAVE_ARGUMENT"]
                ob("%s/%s/%d-takes-operand" % (lb, cat, k), takes or same_gap, key="%s:%s:%d" % (lb, cat, k))
        both = sorted(set(opc.hasjrel) & set(opc.hasjabs))
        ob("%s/hasjrel-hasjabs-disjoint" % lb, not both, key=lb, detail={"both": both})
        # --- frozenset views agree with the lists
        for cat, attr in (("hasjrel", "JREL_OPS"), ("hasjabs", "JABS_OPS"), ("hasconst", "CONST_OPS"), ("hasname", "NAME_OPS"),
                          ("haslocal", "LOCAL_OPS"), ("hasfree", "FREE_OPS"), ("hascompare", "COMPARE_OPS")):
            ob("%s/%s==frozenset(%s)" % (lb, attr, cat), frozenset(getattr(opc, cat)) == getattr(opc, attr), key="%s:%s" % (lb, attr))
        # --- EXTENDED_ARG and its shift
        ext = getattr(opc, "EXTENDED_ARG", None)
        ob("%s/EXTENDED_ARG-defined" % lb, ext is not None and opmap.get("EXTENDED_ARG") == ext, key=lb)
        ob("%s/EXTENDED_ARG_SHIFT" % lb, getattr(opc, "EXTENDED_ARG_SHIFT", None) == (16 if vt < (3, 6) else 8), key=lb,
           detail={"shift": getattr(opc, "EXTENDED_ARG_SHIFT", None)})
        # --- equality with CPython's opcode module
        if rt:
            refmap = dict((n.replace("+", "_"), k) for n, k in rt["opmap"].items() if k < 256)
            mine = dict((n.replace("+", "_"), k) for n, k in opmap.items() if k < 256)
            missing = sorted(set(refmap.items()) - set(mine.items()))
            extra = sorted(set(mine.items()) - set(refmap.items()))
            ob("%s/opmap==CPython" % lb, not missing and not extra, key=lb, detail={"missing": missing[:6], "extra": extra[:6]})
            ob("%s/HAVE_ARGUMENT==CPython" % lb, have == rt["HAVE_ARGUMENT"], key=lb, detail={"xdis": have, "cpython": rt["HAVE_ARGUMENT"]})
            ob("%s/EXTENDED_ARG==CPython" % lb, ext == rt["EXTENDED_ARG"], key=lb)
            for cat in CATS:
                a = set(k for k in getattr(opc, cat) if k < 256)
                b = set(k for k in rt.get(cat, []) if k < 256)
                ob("%s/%s==CPython" % (lb, cat), a == b, key="%s:%s" % (lb, cat),
                   detail={"only_xdis": sorted(a - b), "only_cpython": sorted(b - a)})
            if "hasarg" in rt and hasattr(opc, "hasarg"):
                a = set(k for k in opc.hasarg if k < 256)
                b = set(k for k in rt["hasarg"] if k < 256)
                ob("%s/hasarg==CPython" % lb, a == b, key="%s:hasarg" % lb, detail={"only_xdis": sorted(a - b), "only_cpython": sorted(b - a)})
    # --- the one sanctioned in-place change: remapping.  Exchanging the numbers of two operand-less opcodes must leave the
    #     threshold and every category set alone (run in a child process: remapping patches the shared table)
    import subprocess
    import sys
    prog = (
        "import sys, json\n"
        "from xdis.disasm import get_opcode\n"
        "out = {}\n"
        "for v in ((2, 7), (3, 6), (3, 8), (3, 10), (3, 12), (3, 13)):\n"
        "    base = get_opcode(v, False)\n"
        "    have = base.HAVE_ARGUMENT\n"
        "    cats = dict((c, sorted(getattr(base, c))) for c in %r)\n"
        "    names = [n for n, o in sorted(base.opmap.items(), key=lambda t: t[1]) if o < have and not n.startswith('<') and n not in ('CACHE',)][:2]\n"
        "    alt = {names[0]: base.opmap[names[1]], names[1]: base.opmap[names[0]]}\n"
        "    try:\n"
        "        m = get_opcode(v, False, alt)\n"
        "        out['%%d.%%d' %% v] = [have, m.HAVE_ARGUMENT, cats == dict((c, sorted(getattr(m, c))) for c in cats), m.opmap[names[0]] == alt[names[0]] and m.opname[alt[names[0]]] == names[0]]\n"
        "    except Exception as e:\n"
        "        out['%%d.%%d' %% v] = 'EXC %%s: %%s' %% (type(e).__name__, e)\n"
        "print(json.dumps(out))\n" % (CATS,))
    # second exchange, in a fresh process: a relative jump and a name opcode swap numbers; every category must then hold the
    # same opcode *names* as before (the numbers follow the names) and the threshold stays the lowest operand-taking number
    prog2 = (
        "import sys, json\n"
        "from xdis.disasm import get_opcode\n"
        "v = tuple(int(x) for x in sys.argv[1].split('.'))\n"
        "base = get_opcode(v, False)\n"
        "cats = %r\n"
        "before = dict((c, sorted(base.opname[o] for o in getattr(base, c))) for c in cats)\n"
        "n1 = base.opname[sorted(base.hasjrel)[0]]; n2 = base.opname[sorted(base.hasname)[0]]\n"
        "have = base.HAVE_ARGUMENT\n"
        "alt = {n1: base.opmap[n2], n2: base.opmap[n1]}\n"
        "try:\n"
        "    m = get_opcode(v, False, alt)\n"
        "    after = dict((c, sorted(m.opname[o] for o in getattr(m, c))) for c in cats)\n"
        "    print(json.dumps([n1, n2, have, m.HAVE_ARGUMENT, [c for c in cats if before[c] != after[c]], m.opmap[n1] == alt[n1] and m.opname[alt[n1]] == n1]))\n"
        "except Exception as e:\n"
        "    print(json.dumps('EXC %%s: %%s' %% (type(e).__name__, e)))\n" % (CATS,))
    env = dict(os.environ, PYTHONPATH=os.environ.get("XDIS_REPO", "/repo"), PYTHONDONTWRITEBYTECODE="1")
    q = subprocess.run([sys.executable, "-c", prog], capture_output=True, text=True, env=env, timeout=300)
    try:
        rm = json.loads(q.stdout)
    except Exception:
        rm = {}
        ob("remap/ran", False, key="remap", detail={"stderr": q.stderr[-300:]})
    for ver, r in sorted(rm.items()):
        if isinstance(r, str):
            ob("remap/%s/completes" % ver, False, key="remap:" + ver, detail={"error": r})
            continue
        ob("remap/%s/HAVE_ARGUMENT-unchanged" % ver, r[0] == r[1], key="remap:%s:HAVE_ARGUMENT" % ver, detail={"before": r[0], "after": r[1]})
        ob("remap/%s/categories-unchanged" % ver, bool(r[2]), key="remap:%s:categories" % ver)
        ob("remap/%s/names-follow-numbers" % ver, bool(r[3]), key="remap:%s:names" % ver)
    for ver in ("2.7", "3.6", "3.8", "3.10", "3.12", "3.13"):
        q2 = subprocess.run([sys.executable, "-c", prog2, ver], capture_output=True, text=True, env=env, timeout=300)
        try:
            r = json.loads(q2.stdout)
        except Exception:
            ob("remap2/%s/ran" % ver, False, key="remap2:" + ver, detail={"stderr": q2.stderr[-300:]})
            continue
        if isinstance(r, str):
            ob("remap2/%s/completes" % ver, False, key="remap2:" + ver, detail={"error": r})
            continue
        ob("remap2/%s/HAVE_ARGUMENT-unchanged" % ver, r[2] == r[3], key="remap2:%s:HAVE_ARGUMENT" % ver, detail={"swapped": r[:2], "before": r[2], "after": r[3]})
        ob("remap2/%s/categories-follow-names" % ver, not r[4], key="remap2:%s:categories" % ver, detail={"swapped": r[:2], "categories that changed their names": r[4]})
        ob("remap2/%s/names-follow-numbers" % ver, bool(r[5]), key="remap2:%s:names" % ver, detail={"swapped": r[:2]})
    return {"name": "ground.c09", "kind": "ground", "obligations": obl, "violations": vio, "evaluations": len(obl),
            "assumptions": ["reference = `opcode` module of the installed CPython 2.7.18, 3.6.15, 3.7.16, 3.8.18, 3.9.18, 3.10.13, 3.11.7, 3.12.1, 3.13.0; tables of other versions / PyPy variants: invariants only (no reference in the sandbox)"]}
