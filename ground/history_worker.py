"""Worker of ground/history.py (C18, bounded): runs a sequence of public operations in ONE fresh interpreter
(PYTHONPATH=<repo>) and prints, per operation, a digest of its result and the list of process-wide xdis tables
(module-level / class-level dict, list, set objects that existed before the operation) whose content changed."""
import hashlib
import io
import json
import os
import sys
import types


import re
_ADDR = re.compile(r"0x[0-9a-fA-F]{6,}")


def dg(x):
    # results are compared modulo object addresses (the property says so)
    return hashlib.sha1(_ADDR.sub("0x", x).encode("utf-8", "backslashreplace")).hexdigest()[:16]


def stable(v, depth=0, seen=None):
    """stable text of a value; containers are visited once per traversal (cycles / sharing print as a back reference)"""
    if seen is None:
        seen = set()
    if depth > 10:
        return "<deep>"
    if isinstance(v, (int, float, complex, str, bytes, bool, type(None))):
        return "%s:%r" % (type(v).__name__, v)
    if isinstance(v, (types.FunctionType, types.BuiltinFunctionType, types.MethodType)):
        return "<fn %s.%s>" % (getattr(v, "__module__", "?"), getattr(v, "__qualname__", getattr(v, "__name__", "?")))
    if isinstance(v, types.ModuleType):
        return "<module %s>" % v.__name__
    if isinstance(v, type):
        return "<class %s.%s>" % (v.__module__, v.__qualname__)
    if id(v) in seen:
        return "<seen %s>" % type(v).__name__
    if hasattr(v, "co_code"):
        seen.add(id(v))
        names = ("co_argcount", "co_posonlyargcount", "co_kwonlyargcount", "co_nlocals", "co_stacksize", "co_flags", "co_code", "co_names", "co_varnames", "co_freevars",
                 "co_cellvars", "co_filename", "co_name", "co_qualname", "co_firstlineno", "co_lnotab", "co_linetable", "co_exceptiontable")
        parts = []
        for n in names:
            if hasattr(v, n):
                try:
                    parts.append("%s=%s" % (n, stable(getattr(v, n), depth + 1, seen)))
                except Exception as e:
                    parts.append("%s=!%s" % (n, type(e).__name__))
        parts.append("consts=[%s]" % ",".join(stable(c, depth + 1, seen) for c in v.co_consts))
        return "code(%s)" % ";".join(parts)
    if isinstance(v, (tuple, list)):
        if isinstance(v, list):
            seen.add(id(v))
        return "%s[%s]" % (type(v).__name__, ",".join(stable(x, depth + 1, seen) for x in v))
    if isinstance(v, (set, frozenset)):
        return "%s{%s}" % (type(v).__name__, ",".join(sorted(stable(x, depth + 1, seen) for x in v)))
    if isinstance(v, dict):
        seen.add(id(v))
        return "dict{%s}" % ",".join(sorted("%s:%s" % (stable(k, depth + 1, seen), stable(x, depth + 1, seen)) for k, x in v.items()))
    r = repr(v)
    if " at 0x" in r:
        return "<%s>" % type(v).__name__
    return "%s:%s" % (type(v).__name__, r[:200])


def snapshot():
    """digest per process-wide container of the loaded xdis modules"""
    out = {}
    for name, mod in list(sys.modules.items()):
        if mod is None or not (name == "xdis" or name.startswith("xdis.")):
            continue
        for k, v in list(vars(mod).items()):
            if k.startswith("__"):
                continue
            if isinstance(v, (dict, list, set)):
                try:
                    out["%s.%s" % (name, k)] = dg(stable(v))
                except Exception:
                    pass
            elif isinstance(v, type) and getattr(v, "__module__", None) == name:
                for k2, v2 in list(vars(v).items()):
                    if isinstance(v2, (dict, list, set)):
                        try:
                            out["%s.%s.%s" % (name, k, k2)] = dg(stable(v2))
                        except Exception:
                            pass
            elif isinstance(v, (types.FunctionType,)) and getattr(v, "__module__", None) == name:
                for i, d in enumerate(v.__defaults__ or ()):
                    if isinstance(d, (dict, list, set)):
                        out["%s.%s.__defaults__[%d]" % (name, k, i)] = dg(stable(d))
                if hasattr(v, "cache_info"):
                    out["%s.%s.cache" % (name, k)] = repr(v.cache_info())
    return out


MARSH_VALUES = [(1, "a", 2.5, None), {"k": [1, 2, (3,)]}, 2 ** 70, frozenset([1, "x"]), "€\xe9", b"\x00\xff"]


def run_op(op, repo):
    kind = op[0]
    if kind == "load":
        from xdis.load import load_module
        r = load_module(os.path.join(repo, op[1]))
        return stable(tuple(r))
    if kind == "disasm":
        from xdis.disasm import disassemble_file
        out = io.StringIO()
        so = sys.stdout
        sys.stdout = cap = io.StringIO()
        try:
            disassemble_file(os.path.join(repo, op[1]), out, op[2])
        finally:
            sys.stdout = so
        return out.getvalue() + "\n--stdout--\n" + cap.getvalue()
    if kind == "opc":
        from xdis.op_imports import get_opcode_module
        m = get_opcode_module(tuple(op[1]), op[2])
        return stable(dict((k, v) for k, v in vars(m).items() if not k.startswith("__") and not isinstance(v, types.ModuleType)))
    if kind == "stdapi":
        from xdis.std import make_std_api
        api = make_std_api(tuple(op[1]), op[2])
        eff = []
        for o in range(0, 256):
            try:
                eff.append(api.stack_effect(o, 1 if o >= api.HAVE_ARGUMENT else None))
            except Exception as e:
                eff.append(type(e).__name__)
        return stable((api.opname, sorted(api.opmap.items()), api.HAVE_ARGUMENT, api.EXTENDED_ARG, sorted(getattr(api, "hasjrel", [])), sorted(getattr(api, "hasjabs", [])), sorted(getattr(api, "hasconst", [])), eff))
    if kind == "marsh":
        import marshal
        import xdis.marsh as M
        v = MARSH_VALUES[op[1]]
        return stable((M.dumps(v), M.loads(marshal.dumps(v, 1))))
    if kind == "labels":
        # label set of the module code object, asked through the public finder, then a full instruction walk, then again
        from xdis.load import load_module
        from xdis.op_imports import get_opcode_module
        from xdis.bytecode import Bytecode
        r = load_module(os.path.join(repo, op[1]))
        opc = get_opcode_module(r[0], "pypy" if r[4] else "")
        co = r[3]
        res = []
        for c in [co] + [k for k in co.co_consts if hasattr(k, "co_code")][:3]:
            l1 = sorted(opc.findlabels(c.co_code, opc))
            ins = [(i.offset, i.opname, i.arg, _ADDR.sub("0x", repr(i.argval))[:60], i.is_jump_target) for i in Bytecode(c, opc).get_instructions(c)]
            l2 = sorted(opc.findlabels(c.co_code, opc))
            res.append((l1, ins, l2))
        return stable(res)
    raise ValueError(kind)


def main():
    repo = sys.argv[1]
    ops = json.loads(sys.stdin.read())
    import xdis  # noqa
    out = []
    for op in ops:
        before = snapshot()
        try:
            r = run_op(op, repo)
            d = dg(r)
            err = None
        except Exception as e:
            d, err = "EXC:" + type(e).__name__, "%s: %s" % (type(e).__name__, str(e)[:200])
        after = snapshot()
        changed = sorted(k for k in before if k in after and before[k] != after[k])
        out.append({"op": op, "digest": d, "error": err, "changed": changed})
    sys.stdout.write(json.dumps(out))


main()
