"""Bounded check for C12: for corpus files of every version and each of the six output formats, disassemble_file
completes, writes nothing to sys.stdout (the listing goes to the stream it was given), and the classic / bytes
listings show each non-CACHE instruction of each code object exactly once, in order, with its offset, opcode name,
operand, '>>' iff it is a jump target and the line number iff it starts a line -- compared with the instruction
stream (whose own correctness is C02-C05/C20).  Labelled bounded."""
import glob
import io
import multiprocessing as mp
import os
import re
import sys

HERE = os.path.dirname(os.path.dirname(os.path.abspath(__file__)))
FORMATS = ("classic", "bytes", "extended", "extended-bytes", "xasm", "header")
ADDR = re.compile(r"0x[0-9a-fA-F]{6,}")
LINE = re.compile(r"^\s*(?:(\d+):)?\s*(-->)?\s*(>>)?\s*(\d+) (?:\|([0-9a-f ]*)\| ?)?(<?[A-Za-z_][A-Za-z_0-9+]*>?)(?:\s+(.*))?$")


def _init(repo):
    sys.path.insert(0, repo)


def all_codes(co, out=None):
    out = [] if out is None else out
    out.append(co)
    for c in co.co_consts:
        if hasattr(c, "co_code"):
            all_codes(c, out)
    return out


def expected_stream(co, opc, version):
    from xdis.bytecode import Bytecode
    rows = []
    last_set_lineno = None
    pending = False
    for i in Bytecode(co, opc, dup_lines=True):
        if i.opname == "CACHE":
            continue
        starts = i.starts_line
        if pending:
            starts = last_set_lineno        # 1.x / 2.0-2.2: the instruction after SET_LINENO starts that line
        pending = False
        if i.opname == "SET_LINENO":
            last_set_lineno = i.argval
            pending = True
        rows.append((i.offset, i.opname, bool(i.is_jump_target), starts, i.arg, i.argrepr))
    return rows


def parse_sections(text):
    """instruction lines grouped by code object (a header comment block separates them)"""
    sections, cur = [], None
    in_exc_table = False
    for ln in text.split("\n"):
        if ln.startswith("ExceptionTable:"):
            in_exc_table = True
            continue
        if in_exc_table and not ln.startswith("#"):
            continue
        in_exc_table = False
        if ln.startswith("#"):
            if ln.startswith("# Method Name:") or ln.startswith("# Python bytecode"):
                if cur:
                    sections.append(cur)
                cur = []
            continue
        if not ln.strip():
            continue
        m = LINE.match(ln)
        if m is None:
            if cur is None:
                cur = []
            cur.append(("?", ln))
            continue
        if cur is None:
            cur = []
        cur.append((int(m.group(4)), m.group(6), m.group(3) is not None, int(m.group(1)) if m.group(1) else None, m.group(7) or "", m.group(5)))
    if cur:
        sections.append(cur)
    return [s for s in sections if s]


def _one(path):
    from xdis.disasm import disassemble_file
    from xdis.load import load_module
    from xdis.op_imports import get_opcode_module
    res = {"file": path, "problems": [], "evaluations": 0}
    texts = {}
    for fmt in FORMATS:
        out = io.StringIO()
        cap = io.StringIO()
        so = sys.stdout
        sys.stdout = cap
        try:
            try:
                disassemble_file(path, out, fmt)
            finally:
                sys.stdout = so
        except Exception as e:
            res["problems"].append(("raises", fmt, "%s: %s" % (type(e).__name__, str(e)[:160])))
            continue
        res["evaluations"] += 1
        if cap.getvalue():
            res["problems"].append(("stdout", fmt, "wrote %r to sys.stdout" % cap.getvalue()[:120]))
        texts[fmt] = out.getvalue()
    try:
        r = load_module(path)
        opc = get_opcode_module(r[0], "pypy" if r[4] else "")
        codes = all_codes(r[3])
        want = [expected_stream(c, opc, r[0]) for c in codes]
    except Exception as e:
        res["problems"].append(("stream", "-", "%s: %s" % (type(e).__name__, str(e)[:160])))
        return res
    for fmt in ("classic", "bytes"):
        if fmt not in texts:
            continue
        secs = parse_sections(texts[fmt])
        got = []
        for s in secs:
            bad = [x for x in s if x[0] == "?"]
            if bad:
                res["problems"].append(("unparsed-line", fmt, bad[0][1][:120]))
            got.append([x for x in s if x[0] != "?" and not (fmt == "bytes" and x[1] == "CACHE")])
        res["evaluations"] += len(want)
        # every code object exactly once: match expected streams to sections
        remaining = list(got)
        for w in want:
            key = [(o, n) for (o, n, j, l, a, ar) in w]
            full = [(o, n, j, l) for (o, n, j, l, a, ar) in w]
            idx = next((k for k, g in enumerate(remaining) if [(x[0], x[1], x[2], x[3]) for x in g] == full), None)
            if idx is None:
                idx = next((k for k, g in enumerate(remaining) if [(x[0], x[1]) for x in g] == key), None)
            if idx is None:
                # explain against the closest section (same first offsets)
                near = next((g for g in remaining if g and w and g[0][0] == w[0][0] and len(g) == len(w)), None)
                detail = "no listing section has the instruction sequence of a code object with %d instructions" % len(w)
                if near is not None:
                    d = next(((a, b) for a, b in zip(near, w) if (a[0], a[1]) != (b[0], b[1])), None)
                    detail += "; first difference: listing %r vs stream %r" % (d[0][:2], d[1][:2]) if d else ""
                res["problems"].append(("sequence", fmt, detail))
                continue
            g = remaining.pop(idx)
            for a, b in zip(g, w):
                off, name, mark, line, operand, _bytes = a
                o2, n2, jt, sl, arg, argrepr = b
                if not isinstance(argrepr, str):
                    argrepr = repr(argrepr) if argrepr is not None else ""
                if mark != jt:
                    res["problems"].append(("jump-mark", fmt, "offset %d %s: '>>' %s but is_jump_target %s" % (off, name, mark, jt)))
                    break
                if (line is not None) != (sl is not None) or (line is not None and line != sl):
                    kind = "line-number"
                    if tuple(r[0][:2]) <= (2, 0) and line is None:
                        kind = "pre-2.1-lnotab-lines-not-shown"
                    res["problems"].append((kind, fmt, "offset %d %s: listing line %r, starts_line %r" % (off, name, line, sl)))
                    break
                operand = ADDR.sub("0x", operand)
                argrepr = ADDR.sub("0x", argrepr)
                if arg is not None:
                    if argrepr and argrepr not in operand and str(arg) not in operand.split():
                        res["problems"].append(("operand", fmt, "offset %d %s: operand text %r lacks %r / %r" % (off, name, operand[:60], argrepr[:40], arg)))
                        break
                    if not operand.strip():
                        res["problems"].append(("operand", fmt, "offset %d %s: no operand shown for arg %r" % (off, name, arg)))
                        break
                elif operand.strip() and not operand.strip().startswith("#"):
                    res["problems"].append(("operand", fmt, "offset %d %s: operand text %r for an instruction without operand" % (off, name, operand[:60])))
                    break
        if os.path.exists(path + ".oracle.json") and fmt == "classic":
            import json as _json
            orc = _json.load(open(path + ".oracle.json"))
            if tuple(int(x) for x in orc["version"].split(".")) < (3, 13):
                pool2 = [[x for x in sct if x[0] != "?"] for sct in secs]
                for oc in orc["codes"]:
                    res["evaluations"] += 1
                    key = [(a, b) for a, b, c in oc]
                    sec = next((g for g in pool2 if [(x[0], x[1]) for x in g] == key), None)
                    if sec is None:
                        res["problems"].append(("cpython-sequence", fmt, "no listing section has CPython %s's instruction sequence of a code object with %d instructions" % (orc["version"], len(oc))))
                        continue
                    pool2.remove(sec)
                    for x, (off, name, jt) in zip(sec, oc):
                        if x[2] != jt:
                            res["problems"].append(("cpython-jump-mark", fmt, "offset %d %s: listing '>>' %s, CPython %s dis is_jump_target %s" % (off, name, x[2], orc["version"], jt)))
                            break
        if remaining:
            res["problems"].append(("extra-section", fmt, "%d listing section(s) match no code object (first has %d lines)" % (len(remaining), len(remaining[0]))))
    return res


def check(tier="quick", seed=0):
    repo = os.environ.get("XDIS_REPO", "/repo")
    files = sorted(glob.glob(os.path.join(repo, "test", "bytecode_*", "*.py[co]")))
    by_dir = {}
    for f in files:
        by_dir.setdefault(os.path.dirname(f), []).append(f)
    chosen = []
    for d, fs in sorted(by_dir.items()):
        fs = sorted(fs, key=lambda p: (-min(os.path.getsize(p), 4000), p))
        chosen += fs[:2] if tier == "quick" else fs
    vio, n, seen = [], 0, set()
    # programs compiled by the nine installed interpreters (spec/ref/oracle_*.json): brings 3.13 and async / match /
    # exception-table code that the repository's corpus lacks
    import binascii
    import json
    import shutil
    import struct
    import tempfile
    tmp = tempfile.mkdtemp(prefix="xdis-verif-c12-")
    extra = []
    for ver in ("2.7", "3.6", "3.7", "3.8", "3.9", "3.10", "3.11", "3.12", "3.13"):
        p = os.path.join(HERE, "spec", "ref", "oracle_%s.json" % ver)
        if not os.path.exists(p):
            continue
        o = json.load(open(p))
        vt = tuple(int(x) for x in ver.split("."))
        progs = sorted(o["programs"])
        if tier == "quick":
            progs = [q for q in progs if q in ("async", "exc", "loops", "match", "gen")]
        for prog in progs:
            raw = binascii.unhexlify(o["programs"][prog][0]["marshal"])
            hdr = binascii.unhexlify(o["magic"]) + (b"\0" * 4 if vt >= (3, 7) else b"") + struct.pack("<I", 1) + (struct.pack("<I", 1) if vt >= (3, 3) else b"")
            d = os.path.join(tmp, "bytecode_%s" % ver)
            os.makedirs(d, exist_ok=True)
            f = os.path.join(d, "oracle_%s.pyc" % prog)
            with open(f, "wb") as fh:
                fh.write(hdr + raw)
            with open(f + ".oracle.json", "w") as fh:
                json.dump({"version": ver, "codes": [[[i[0], i[2], bool(i[5])] for i in c["instructions"] if i[2] != "CACHE"] for c in o["programs"][prog]]}, fh)
            extra.append(f)
    ctx = mp.get_context("fork")
    try:
      with ctx.Pool(min(16, os.cpu_count() or 4), initializer=_init, initargs=(repo,)) as pool:
        for r in pool.imap_unordered(_one, chosen + extra, chunksize=2):
            n += r["evaluations"]
            rel = os.path.relpath(r["file"], repo) if r["file"].startswith(repo) else os.path.join("oracle", os.path.relpath(r["file"], tmp))
            for kind, fmt, detail in r["problems"]:
                key = "%s:%s:%s" % (kind, fmt, rel.split(os.sep)[1])
                if kind == "pre-2.1-lnotab-lines-not-shown":
                    key = kind
                if kind == "raises" and fmt == "xasm" and "3.2pypy" in rel:
                    key = "xasm-raises-on-pypy3.2-bytes-names"
                if key in seen:
                    continue
                seen.add(key)
                vio.append({"name": "C12/bounded/%s" % kind, "key": key, "input": rel, "format": fmt, "detail": "%s [%s] %s" % (rel, fmt, detail)})
    finally:
        shutil.rmtree(tmp, ignore_errors=True)
    return {"name": "ground.listing", "kind": "bounded",
            "bound": "%d corpus files (%s) + %d programs compiled by the installed interpreters 2.7, 3.6-3.13 x 6 formats: completes, nothing on sys.stdout; classic and bytes listings compared instruction by instruction with the instruction stream of every code object" % (len(chosen), "2 per version directory" if tier == "quick" else "all", len(extra)),
            "evaluations": n, "violations": vio, "obligations": [], "samples": [{"file": os.path.relpath(f, repo)} for f in chosen[:3]],
            "assumptions": ["bounded: listings are checked on the repository's corpus only; operand text is checked for containing the operand's argrepr or numeric value, not for exact layout"]}
