"""Worker of ground/locations.py: runs under a 3.11+ interpreter with PYTHONPATH=<repo>.  Generates well-formed 3.11+ location
tables (every entry form, every first byte, multi-byte varints, negative line deltas), installs each in a real code object
of the host with code.replace(), and compares
  * xdis.codetype.code311.parse_location_entries(table, first_line), expanded to one tuple per code unit, and
  * Code311.co_positions() and co_lines() of the portable code object built from the same fields
with the host's own co_positions() / co_lines() (the latter as the line of every code unit).  argv: N SEED"""
import dis
import json
import random
import sys


def varint(v):
    out = []
    while v >= 64:
        out.append(0x40 | (v & 63))
        v >>= 6
    out.append(v)
    return out


def svarint(v):
    return varint(((-v) << 1) | 1) if v < 0 else varint(v << 1)


def gen_entry(rng, line, code=None):
    """one well-formed entry -> (bytes, new line); keeps the running line >= 1 so that CPython's -1 == None convention for
    lines is not triggered by the generator"""
    length = rng.randint(1, 8)
    if code is None:
        code = rng.choice([rng.randint(0, 9), rng.randint(10, 12), 13, 14, 15])
    first = 0x80 | (code << 3) | (length - 1)
    big = lambda: rng.choice([rng.randint(0, 63), rng.randint(64, 4095), rng.randint(4096, 1 << 20)])
    if code <= 9:
        body = [rng.randint(0, 127)]
    elif code <= 12:
        body = [rng.randint(0, 127), rng.randint(0, 127)]
        line += code - 10
    elif code == 13:
        d = rng.choice([0, 1, -1, big(), -min(big(), line - 1)])
        body = svarint(d)
        line += d
    elif code == 14:
        d = rng.choice([0, 1, -1, big(), -min(big(), line - 1)])
        if line + d < 1:
            d = 0
        body = svarint(d) + varint(big()) + varint(big()) + varint(big())
        line += d
    else:
        body = []
    return [first] + body, line, length


def gen_table(rng, first_line, exhaustive_first=None):
    line, out, units = first_line, [], 0
    n = rng.randint(0, 12)
    codes = [None] * n
    if exhaustive_first is not None:
        codes = [exhaustive_first] + codes
    for c in codes:
        b, line2, length = gen_entry(rng, line, c)
        if line2 < 1:
            continue
        line = line2
        out += b
        units += length
    return bytes(out), units


def per_unit(ranges):
    """the property speaks of the line of every code unit: 3.11 reports one range per entry and 3.12+ merges neighbours of
    equal line, so ranges are expanded to {offset: line} before comparing"""
    out = {}
    for start, end, line in ranges:
        for off in range(start, end, 2):
            out[off] = line
    return sorted(out.items())


def main():
    n, seed = int(sys.argv[1]), int(sys.argv[2])
    rng = random.Random(seed)
    from xdis.codetype.code311 import parse_location_entries
    from xdis.codetype import codeType2Portable
    nop = dis.opmap["NOP"]
    base = (lambda: None).__code__
    out = {"host": "%d.%d" % sys.version_info[:2], "evaluations": 0, "tables": 0, "diffs": [], "errors": []}
    cases = [(rng.choice([1, 2, 57, 70000]), c) for c in range(16) for _ in range(4)] + [(rng.choice([1, 3, 1000, 1 << 20]), None) for _ in range(n)]
    for first_line, c in cases:
        tbl, units = gen_table(rng, first_line, c)
        try:
            co = base.replace(co_code=bytes([nop, 0]) * max(units, 1), co_linetable=tbl, co_firstlineno=first_line)
            ref = [tuple(p) for p in co.co_positions()][:units]
            ref_lines = per_unit(co.co_lines())
        except Exception as e:  # the host refuses the table: not a well-formed input
            out["errors"].append("%s: %r" % (tbl.hex(), e))
            continue
        out["tables"] += 1
        rec = {"table": tbl.hex(), "first_line": first_line}
        try:
            got = []
            for (length, sl, el, sc, ec) in parse_location_entries(tbl, first_line):
                got += [(sl, el, sc, ec)] * length
        except Exception as e:
            got = "raised %r" % (e,)
        out["evaluations"] += 1
        if got != ref:
            out["diffs"].append(dict(rec, what="parse_location_entries", cpython=repr(ref)[:300], xdis=repr(got)[:300]))
        try:
            port = codeType2Portable(co)
            got2 = [tuple(p) for p in port.co_positions()][:units]
            got3 = per_unit(port.co_lines())
        except Exception as e:
            got2 = got3 = "raised %r" % (e,)
        out["evaluations"] += 2
        if got2 != ref:
            out["diffs"].append(dict(rec, what="Code311.co_positions", cpython=repr(ref)[:300], xdis=repr(got2)[:300]))
        if got3 != ref_lines:
            out["diffs"].append(dict(rec, what="Code311.co_lines", cpython=repr(ref_lines)[:300], xdis=repr(got3)[:300]))
        if len(out["diffs"]) > 20:
            break
    sys.stdout.write(json.dumps(out))


if __name__ == "__main__":
    main()
