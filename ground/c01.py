"""C01/C10 ground obligation: the type-code dispatch table of xdis.unmarshal equals marshal.c's type codes."""


def check(tier="quick", seed=0):
    import xdis.unmarshal as U
    from spec import marshal_fmt as M
    obl, vio = [], []

    def ob(name, ok, key=None, detail=None):
        obl.append({"name": "C01/" + name, "status": "discharged" if ok else "refuted", "backend": "evaluation", "time_s": 0})
        if not ok:
            vio.append({"name": "C01/" + name, "key": key, "detail": detail})
    tab = dict(U.UNMARSHAL_DISPATCH_TABLE)
    for code, kind in sorted(M.DISPATCH.items()):
        ob("dispatch/%r->%s" % (code, kind), tab.get(code) == kind, key=code, detail={"xdis": tab.get(code), "marshal.c": kind})
    extra = sorted(set(tab) - set(M.DISPATCH) - {"C"})
    ob("dispatch/no-unknown-codes", not extra, key="extra", detail={"extra": extra})
    ob("dispatch/'C'-is-old-code", tab.get("C") == "code", key="C")
    ob("FLAG_REF", U.FLAG_REF == 0x80, key="FLAG_REF")
    for kind in set(tab.values()):
        ob("reader-exists/t_%s" % kind, hasattr(U._VersionIndependentUnmarshaller, "t_" + kind), key=kind)
    return {"name": "ground.c01", "kind": "ground", "obligations": obl, "violations": vio, "evaluations": len(obl),
            "assumptions": ["marshal.c type codes transcribed in spec/marshal_fmt.py (validated behaviourally by ground.unmarshal_diff against the real marshal)"]}
