"""Bounded check for C11: hostile .pyc inputs.  Every input is fed to xdis.load.load_module (through a real file) or
load_module_from_file_object (through BytesIO, inputs >= 50 bytes as load_module guarantees) in worker processes with
a wall-clock limit per call, an address-space limit, and a CPython audit hook that records exec / compile / import of
anything not already imported / files opened for writing / file-system mutation.  Allowed outcomes: a 7-tuple, or
ImportError.  Labelled bounded."""
import binascii
import glob
import io
import json
import multiprocessing as mp
import os
import random
import struct
import sys
import time

HERE = os.path.dirname(os.path.dirname(os.path.abspath(__file__)))
TIME_LIMIT_S = 60        # limit of the serial confirmation run
SOFT_LIMIT_S = 6         # limit inside the parallel sweep; candidates are re-run serially before they count
MEM_LIMIT = 1 << 30


def corpus(repo, tier):
    files = sorted(glob.glob(os.path.join(repo, "test", "bytecode_*", "*.pyc")) + glob.glob(os.path.join(repo, "test", "bytecode_*", "*.pyo")))
    by_dir = {}
    for f in files:
        by_dir.setdefault(os.path.basename(os.path.dirname(f)), []).append(f)
    out = []
    for d, fs in sorted(by_dir.items()):
        fs = sorted(fs, key=lambda p: (os.path.getsize(p), p))
        out += fs[:1] if tier == "quick" else fs[:4]
    return out


def mutants(data, rng, tier):
    """(label, bytes) hostile variants of one valid file"""
    n = len(data)
    dense = 96 if tier == "quick" else 400
    cuts = list(range(0, min(n, dense))) + sorted(rng.sample(range(min(n, dense), n), min(60 if tier == "quick" else 400, max(0, n - dense)))) if n > dense else list(range(n))
    for c in cuts:
        yield "prefix:%d" % c, data[:c]
    pos = list(range(min(n, 64))) + [rng.randrange(n) for _ in range(150 if tier == "quick" else 1500)]
    for p in pos:
        for v in (0, 0xFF, data[p] ^ 0x80, data[p] ^ 0x01, rng.randrange(256)):
            if v != data[p]:
                yield "flip:%d:%d" % (p, v), data[:p] + bytes([v]) + data[p + 1:]
    for _ in range(40 if tier == "quick" else 400):
        p = rng.randrange(n)
        yield "insert:%d" % p, data[:p] + bytes(rng.randrange(256) for _ in range(rng.choice([1, 4, 8]))) + data[p:]
        q = min(n, p + rng.choice([1, 4, 8]))
        yield "delete:%d" % p, data[:p] + data[q:]
    hdr = data[:16]
    big = struct.pack("<i", 0x7FFFFFFF)
    neg = struct.pack("<i", -1)
    for code in b"s(t[<>{luaAzZr)RIigfxyc?0NTF.S":
        for ln in (big, neg, struct.pack("<i", 1 << 20)):
            for h in (8, 12, 16):
                yield "adversarial:%c:%s@%d" % (code, binascii.hexlify(ln).decode(), h), data[:h] + bytes([code]) + ln + data[h + 5:]
                yield "adversarial-ref:%c@%d" % (code, h), data[:h] + bytes([code | 0x80]) + ln + data[h + 5:]
    for h in (8, 12, 16):
        yield "deep-tuples@%d" % h, data[:h] + (b"(" + struct.pack("<i", 1)) * 20000 + b"N"
        yield "deep-lists@%d" % h, data[:h] + (b"[" + struct.pack("<i", 1)) * 5000 + b"N"
        yield "deep-small-tuples@%d" % h, data[:h] + b"\xa9\x01" * 30000 + b"N"
        yield "self-ref@%d" % h, data[:h] + b"\xa8" + struct.pack("<i", 2) + b"r" + struct.pack("<i", 0) + b"r" + struct.pack("<i", 0) + b"N" * 60
        yield "huge-long@%d" % h, data[:h] + b"l" + big + b"\x01\x00" * 40
        yield "dict-no-end@%d" % h, data[:h] + b"{" + b"N" * 100
    yield "not-bytecode:text", b"#!/usr/bin/python\nprint('hello world')\n" * 4
    yield "not-bytecode:zeros", bytes(200)
    yield "not-bytecode:ff", b"\xff" * 200
    yield "empty", b""


def _init(repo, tmpdir, limit):
    import resource
    global LIMIT
    LIMIT = limit
    sys.path.insert(0, repo)
    try:
        resource.setrlimit(resource.RLIMIT_AS, (MEM_LIMIT, MEM_LIMIT))
    except Exception:
        pass
    sys.setrecursionlimit(1000)
    devnull = open(os.devnull, "w")
    sys.stderr = devnull
    sys.stdout = devnull          # stray prints of the unmarshaller on unknown type codes are C12's concern, not C11's
    global EVENTS, ARMED, TMPDIR
    EVENTS = []
    ARMED = [False]
    TMPDIR = tmpdir

    def hook(event, args):
        if not ARMED[0]:
            return
        if event == "compile":
            # traceback.print_exc() parses lines of xdis's own source to place its carets: not something from the file
            fr = sys._getframe(1)
            while fr is not None:
                if fr.f_code.co_filename.endswith(("traceback.py", "linecache.py", "ast.py")):
                    return
                fr = fr.f_back
        if event in ("exec", "compile", "os.system", "subprocess.Popen", "os.remove", "os.rename", "os.mkdir", "os.rmdir", "shutil.rmtree", "os.chmod", "os.truncate", "os.symlink", "os.link"):
            EVENTS.append((event, repr(args)[:120]))
        elif event == "import":
            if args[0] not in sys.modules:
                EVENTS.append((event, repr(args[0])[:120]))
        elif event == "open":
            mode = args[1]
            flags = args[2]
            if (isinstance(mode, str) and any(ch in mode for ch in "wax+")) or (isinstance(flags, int) and flags & (os.O_WRONLY | os.O_RDWR | os.O_CREAT | os.O_TRUNC | os.O_APPEND)):
                EVENTS.append((event, repr(args)[:120]))
    sys.addaudithook(hook)
    import xdis.load  # noqa
    import xdis.unmarshal  # noqa
    import xdis.marsh  # noqa
    import xdis.dropbox.decrypt25  # noqa
    import traceback  # noqa
    import unicodedata  # noqa


class _Timeout(BaseException):      # not an Exception: the code under test must not be able to swallow it
    pass


def _alarm(signum, frame):
    raise _Timeout()


def _run(task):
    import signal
    import xdis.load as L
    label, data, via_file = task
    del EVENTS[:]
    signal.signal(signal.SIGALRM, _alarm)
    signal.alarm(LIMIT)
    t0 = time.time()
    out = None
    path = None
    try:
        try:
            if via_file:
                path = os.path.join(TMPDIR, "x%d.pyc" % os.getpid())
                with open(path, "wb") as f:
                    f.write(data)
                ARMED[0] = True
                r = L.load_module(path)
            else:
                ARMED[0] = True
                r = L.load_module_from_file_object(io.BytesIO(data), "x.pyc")
            ARMED[0] = False
            if not (isinstance(r, tuple) and len(r) == 7):
                out = "returned %s of length %s" % (type(r).__name__, len(r) if hasattr(r, "__len__") else "?")
        except ImportError:
            pass
        except _Timeout:
            out = "does not terminate within %d s" % LIMIT
        except MemoryError:
            out = "MemoryError (address-space limit %d MiB reached)" % (MEM_LIMIT >> 20)
        except RecursionError:
            out = "RecursionError escapes"
        except BaseException as e:
            out = "%s escapes: %s" % (type(e).__name__, str(e)[:100])
    finally:
        ARMED[0] = False
        signal.alarm(0)
    dt = time.time() - t0
    if out is None and EVENTS:
        out = "forbidden effect during the call: %s %s" % EVENTS[0]
    return label, out, dt


def check(tier="quick", seed=0):
    repo = os.environ.get("XDIS_REPO", "/repo")
    rng = random.Random(seed or 1)
    files = corpus(repo, tier)
    tasks = []
    for f in files:
        data = open(f, "rb").read()
        if len(data) > 6000:
            continue
        base = os.path.relpath(f, repo)
        for i, (label, m) in enumerate(mutants(data, rng, tier)):
            via_file = len(m) < 50 or (i % 25 == 0)
            tasks.append(("%s|%s" % (base, label), m, via_file))
    # all 65536 magic words in front of a well-formed 3.8 body and of zeros (exhaustive in the magic dimension)
    body = None
    for f in files:
        if "bytecode_3.8" in f and "pypy" not in f:
            body = open(f, "rb").read()[4:]
            break
    body = body or bytes(80)
    sys.path.insert(0, repo)
    try:
        from xdis.magics import magicint2version
        known = set(magicint2version)
    except Exception:
        known = set()
    for m in range(65536):
        if tier == "quick" and m % 4 and m not in known and m not in (62135, 62215, 2657, 22138):
            continue
        for cr in (b"\r\n", b"\x00\x00"):
            tasks.append(("magic:%d:%s" % (m, binascii.hexlify(cr).decode()), struct.pack("<H", m) + cr + body[:120], False))
    vio = []
    n = 0
    slowest = 0.0
    seen = set()
    import shutil
    import tempfile
    tmpdir = tempfile.mkdtemp(prefix="xdis-verif-c11-")
    by_label = dict((t[0], t) for t in tasks)
    candidates = []

    def record(label, out):
        what = out.split(":")[0]
        src = label.split("|")[0] if "|" in label else "magic"
        key = "%s@%s" % (what[:60], src.split(os.sep)[1] if os.sep in src else src)
        if key in seen:
            return
        seen.add(key)
        vio.append({"name": "C11/bounded/%s" % what[:40], "key": key, "input_label": label, "input": binascii.hexlify(by_label[label][1][:3000]).decode(), "detail": out})

    ctx = mp.get_context("fork")
    try:
        pool = ctx.Pool(min(16, os.cpu_count() or 4), initializer=_init, initargs=(repo, tmpdir, SOFT_LIMIT_S))
        try:
            stop = False
            for b0 in range(0, len(tasks), 800):
                batch = tasks[b0:b0 + 800]
                try:
                    res = pool.map_async(_run, batch, chunksize=10).get(timeout=600)
                except mp.TimeoutError:
                    # a worker died (interpreter crash in a C extension such as the built-in marshal) or hung beyond every limit:
                    # multiprocessing loses its chunk silently.  Reported, never waited for.
                    vio.append({"name": "C11/bounded/worker-lost", "key": "worker-lost", "input_label": batch[0][0], "input": "",
                                "detail": "a fuzz worker was lost (interpreter crash or hang) in the batch of inputs %d..%d" % (b0, b0 + len(batch))})
                    break
                for label, out, dt in res:
                    n += 1
                    slowest = max(slowest, dt)
                    if out and out.startswith("does not terminate"):
                        candidates.append(label)
                        if len(candidates) >= 8:
                            stop = True          # stop the sweep: confirm serially below
                    elif out:
                        record(label, out)
                if stop:
                    break
        finally:
            pool.terminate()
            pool.join()
        # soft time-outs may be contention between 16 workers: each candidate is re-run alone with the full limit
        if candidates:
            pool = ctx.Pool(1, initializer=_init, initargs=(repo, tmpdir, TIME_LIMIT_S))
            try:
                for label in candidates[:3]:
                    l2, out, dt = pool.apply(_run, (by_label[label],))
                    slowest = max(slowest, dt)
                    if out:
                        record(label, out)
                        if out.startswith("does not terminate"):
                            break
            finally:
                pool.terminate()
                pool.join()
    finally:
        shutil.rmtree(tmpdir, ignore_errors=True)
    # memory amplification: a 77-byte file that announces a tuple of 120 million items, on the loader path of the host's own
    # version (built-in marshal) and on xdis's own unmarshaller; each in a child process of its own, peak RSS measured
    import subprocess
    probe = (
        "import sys, io, struct, resource, os\n"
        "import xdis.load as L\n"
        "from xdis.magics import PYTHON_MAGIC_INT, int2magic\n"
        "mi = PYTHON_MAGIC_INT if sys.argv[1] == 'host' else (3413 if PYTHON_MAGIC_INT != 3413 else 3425)\n"
        "data = int2magic(mi) + b'\\0' * 12 + b'(' + struct.pack('<i', 120000000) + b'N' * 60\n"
        "sys.stderr = open(os.devnull, 'w')\n"
        "try:\n    L.load_module_from_file_object(io.BytesIO(data), 'x.pyc'); r = 'returned'\n"
        "except ImportError:\n    r = 'ImportError'\n"
        "except BaseException as e:\n    r = 'ESC ' + type(e).__name__\n"
        # VmHWM is the peak of THIS address space (ru_maxrss would inherit the peak of the forking parent across exec)
        "hwm = [l for l in open('/proc/self/status') if l.startswith('VmHWM')][0].split()[1]\n"
        "print(r, int(hwm) // 1024)\n")
    amp = {}
    for which in ("host", "portable"):
        env = dict(os.environ, PYTHONPATH=repo, PYTHONDONTWRITEBYTECODE="1")
        try:
            q = subprocess.run([sys.executable, "-c", probe, which], capture_output=True, text=True, env=env, timeout=120)
        except subprocess.TimeoutExpired:
            vio.append({"name": "C11/bounded/does not terminate", "key": "amplification-probe-%s-does-not-terminate" % which, "input_label": "tuple-of-120M:" + which, "input": "",
                        "detail": "loading the 77-byte file that announces a tuple of 120 million items does not terminate within 120 s (%s loader path)" % which})
            continue
        n += 1
        parts = q.stdout.split()
        mb = int(parts[-1]) if parts and parts[-1].isdigit() else -1
        amp[which] = (q.stdout.strip(), mb)
        if q.returncode != 0 or not parts or parts[0] not in ("ImportError", "returned"):
            vio.append({"name": "C11/bounded/amplification-probe", "key": "amplification-probe-%s-outcome" % which, "input_label": "tuple-of-120M:" + which, "input": "", "detail": "outcome %r rc %s" % (q.stdout.strip(), q.returncode)})
        elif mb > 300:
            key = "host-fast-path-memory-amplification" if which == "host" else "portable-path-memory-amplification"
            vio.append({"name": "C11/bounded/memory-amplification", "key": key, "input_label": "tuple-of-120M:" + which,
                        "input": "magic of the %s + 12 zero bytes + '(' + <i 120000000 + 60 x 'N' (77 bytes)" % ("host interpreter" if which == "host" else "another 3.x version"),
                        "detail": "peak RSS %d MiB while loading a 77-byte file (%s loader path)" % (mb, which)})
    return {"name": "ground.fuzz_load", "kind": "bounded",
            "bound": "%d corpus files (%s) x {every prefix up to 96/400 bytes + sampled, byte flips, inserts/deletes, adversarial length/reference fields, deep nesting} + magic words %s; %d s / %d MiB per call; slowest call %.2f s" % (
                len(files), "1 per version directory" if tier == "quick" else "4 per version directory", "every 4th of 65536 + every magic in xdis's tables" if tier == "quick" else "all 65536", TIME_LIMIT_S, MEM_LIMIT >> 20, slowest),
            "evaluations": n, "violations": vio, "obligations": [], "samples": [{"input": t[0]} for t in tasks[:3]],
            "assumptions": ["bounded: hostile inputs are generated from the repository's corpus by the stated mutation operators; effects are observed through CPython audit events (exec, compile, import of a module not yet loaded, open for writing, os mutation calls)"]}
