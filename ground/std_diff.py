"""Bounded check for C20: xdis.std against the host's own dis, under each installed host 3.8-3.13, for every kind of object dis
accepts (function, method, classmethod, class, generator, coroutine, code object, nested code object, source string), with and
without first_line: instruction fields, argval of table-indexed and jump operands, findlabels, findlinestarts, module-level
tables.  The deductive part of C20 proves the plumbing below these entry points; object coercion and the module-level names are
only exercised here.  Labelled bounded."""
import json
import os
import subprocess

HERE = os.path.dirname(os.path.dirname(os.path.abspath(__file__)))
HOSTS = ["3.8.18", "3.9.18", "3.10.13", "3.11.7", "3.12.1", "3.13.0"]


def check(tier="quick", seed=0):
    repo = os.environ.get("XDIS_REPO", "/repo")
    vio, n, hosts, seen = [], 0, [], set()
    procs = []
    for h in HOSTS:
        exe = "/root/.pyenv/versions/%s/bin/python" % h
        if os.path.exists(exe):
            env = dict(os.environ, PYTHONPATH=repo, PYTHONDONTWRITEBYTECODE="1", PYTHONWARNINGS="ignore")
            procs.append((h, subprocess.Popen([exe, os.path.join(HERE, "ground", "std_worker.py")], stdout=subprocess.PIPE, stderr=subprocess.PIPE, env=env, text=True)))
    for h, p in procs:
        so, se = p.communicate(timeout=600)
        try:
            d = json.loads(so)
        except Exception:
            from ground.common import worker_failed
            return worker_failed("ground.std_diff", h, se, repo)
        hosts.append(d["host"])
        n += d["evaluations"]
        for x in d["diffs"]:
            key = "std:%s:%s:%s" % (d["host"], x["what"].split("(")[0].strip()[:40], x["obj"].split(" ")[0].split("@")[0])
            if d["host"] == "3.13" and "WITH_EXCEPT_START" in x["dis"] and x["dis"].replace("None, None]", "") .split(",")[:3] == x["xdis"].split(",")[:3]:
                key = "std-3.13-arg-of-WITH_EXCEPT_START"
            if key in seen:
                continue
            seen.add(key)
            vio.append({"name": "C20/bounded/std-vs-dis", "key": key, "input": "host %s, %s" % (d["host"], x["obj"]), "detail": "%s: dis %s, xdis.std %s" % (x["what"], x["dis"], x["xdis"])})
    return {"name": "ground.std_diff", "kind": "bounded", "bound": "13 kinds of object (function, method, classmethod, class, generator, coroutine and async generator functions and objects, code, nested code, source) x {first_line None, 1000} x hosts %s: instruction fields, argval, findlabels, findlinestarts, 11 module-level tables" % ",".join(hosts),
            "evaluations": n, "violations": vio, "obligations": [], "samples": [{"program": "ground/std_worker.SRC"}],
            "assumptions": ["bounded: one program with every kind of object; category lists compared as sets of real opcodes (< 256); 3.13's starts_line flag + line_number compared in the older line-or-None form; is_jump_target not compared on 3.13 (its dis also marks exception-range boundaries)"]}
