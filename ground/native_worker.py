"""Worker of ground/native_roundtrip.py (C16, bounded): under one host 3.8-3.13 with PYTHONPATH=<repo>:
native code object -> codeType2Portable -> to_native() gives back an equal native code object (every co_* attribute, line
table views, recursively), and the original object is left unchanged."""
import json
import sys
import types

sys.path.insert(0, __file__.rsplit("/", 1)[0])
from std_worker import SRC       # noqa: E402  (the same program: closures, generators, coroutines, try/with, classes)

FIELDS = [n for n in dir(types.CodeType) if n.startswith("co_") and n not in ("co_lnotab",)]


def snapshot(co):
    out = {}
    for f in FIELDS:
        v = getattr(co, f)
        if callable(v):
            try:
                v = list(v())
            except Exception as e:
                v = "EXC %s" % type(e).__name__
        if f == "co_consts":
            v = tuple("<code>" if hasattr(c, "co_code") else (type(c).__name__, repr(c)) for c in v)
        out[f] = repr(v)
    return out


def walk(c):
    yield c
    for k in c.co_consts:
        if hasattr(k, "co_code"):
            for x in walk(k):
                yield x


def main():
    from xdis.codetype import codeType2Portable
    out = {"host": "%d.%d" % sys.version_info[:2], "evaluations": 0, "diffs": []}
    top = compile(SRC, "std_src.py", "exec")
    for co in walk(top):
        before = snapshot(co)
        out["evaluations"] += 1
        try:
            p = codeType2Portable(co)
            n = p.to_native()
        except Exception as e:
            out["diffs"].append({"code": co.co_name, "what": "raises", "detail": "%s: %s" % (type(e).__name__, str(e)[:120])})
            continue
        try:
            p2 = codeType2Portable(co, sys.version_info[:2])     # the version as a pair, as callers that pass it often do
            if type(p2) is not type(p):
                out["diffs"].append({"code": co.co_name, "what": "portable type by version pair", "detail": "codeType2Portable(co) is a %s, codeType2Portable(co, %r) a %s" % (type(p).__name__, sys.version_info[:2], type(p2).__name__)})
        except Exception as e:
            out["diffs"].append({"code": co.co_name, "what": "raises with a version pair", "detail": "%s: %s" % (type(e).__name__, str(e)[:120])})
        after = snapshot(co)
        if after != before:
            out["diffs"].append({"code": co.co_name, "what": "original changed", "detail": str([k for k in before if before[k] != after[k]])})
        if not isinstance(n, types.CodeType):
            out["diffs"].append({"code": co.co_name, "what": "to_native() result", "detail": type(n).__name__})
            continue
        back = snapshot(n)
        for k in before:
            if before[k] != back[k]:
                out["diffs"].append({"code": co.co_name, "what": "field %s" % k, "detail": "%s != %s" % (before[k][:80], back[k][:80])})
        # portable fields equal the native ones
        for f in ("co_argcount", "co_posonlyargcount", "co_kwonlyargcount", "co_nlocals", "co_stacksize", "co_flags", "co_code", "co_names", "co_varnames",
                  "co_freevars", "co_cellvars", "co_filename", "co_name", "co_firstlineno", "co_qualname", "co_exceptiontable", "co_linetable"):
            if hasattr(co, f) and f != "co_linetable" or (f == "co_linetable" and sys.version_info >= (3, 10)):
                a, b = getattr(co, f), getattr(p, f, "<missing>")
                if isinstance(b, list):
                    b = tuple(b)
                if a != b:
                    out["diffs"].append({"code": co.co_name, "what": "portable.%s" % f, "detail": "%r != %r" % (a if len(repr(a)) < 60 else repr(a)[:60], b if len(repr(b)) < 60 else repr(b)[:60])})
    sys.stdout.write(json.dumps(out))


if __name__ == "__main__":
    main()
