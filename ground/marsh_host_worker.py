"""Worker of ground/marsh_diff.py: runs under one host interpreter (3.8-3.13) with PYTHONPATH=<repo>.
Both directions of property C14 on generated plain values; prints one JSON object."""
import json
import marshal
import random
import struct
import sys


def same(a, b, path="v"):
    if type(a) is not type(b):
        return "%s: kind %s vs %s (%r vs %r)" % (path, type(a).__name__, type(b).__name__, a, b)
    if isinstance(a, (tuple, list)):
        if len(a) != len(b):
            return "%s: length %d vs %d" % (path, len(a), len(b))
        for i, (x, y) in enumerate(zip(a, b)):
            r = same(x, y, "%s[%d]" % (path, i))
            if r:
                return r
        return None
    if isinstance(a, (set, frozenset)):
        if len(a) != len(b):
            return "%s: set size %d vs %d" % (path, len(a), len(b))
        for x in a:
            if not any(same(x, y) is None for y in b):
                return "%s: element %r" % (path, x)
        return None
    if isinstance(a, dict):
        if len(a) != len(b):
            return "%s: dict size" % path
        for k in a:
            m = [k2 for k2 in b if same(k, k2) is None]
            if not m:
                return "%s: key %r missing" % (path, k)
            r = same(a[k], b[m[0]], "%s[%r]" % (path, k))
            if r:
                return r
        return None
    if isinstance(a, float):
        return None if struct.pack("<d", a) == struct.pack("<d", b) else "%s: float bits %r vs %r" % (path, a, b)
    if isinstance(a, complex):
        return same(a.real, b.real, path + ".real") or same(a.imag, b.imag, path + ".imag")
    return None if a == b else "%s: %r vs %r" % (path, a, b)


TEXTS = ["", "abc", "\xe9", "\xff\x80", "€", "\U0001F600", "\ud800", "x\udfffy", "a" * 255, "a" * 256, "\xe9" * 300, "\x00", "Ā" * 70000]
INTS = [0, 1, -1, 127, 128, 255, 256, 32767, 32768, -32768, 65535, 65536, 2 ** 31 - 1, 2 ** 31, -2 ** 31, -2 ** 31 - 1, 2 ** 32 - 1, 2 ** 32, 2 ** 45 - 1,
        2 ** 45, 2 ** 63 - 1, 2 ** 63, -2 ** 63, -2 ** 63 - 1, 2 ** 64, 10 ** 30, -10 ** 30, 2 ** 300 + 12345] + [s * (2 ** k + d) for k in range(13, 130, 3) for d in (-1, 0, 1) for s in (1, -1)]
FLOATS = [0.0, -0.0, 1.5, -2.25, 1e300, 5e-324, 2.2250738585072014e-308, float("inf"), float("-inf"), 0.1, 1 / 3.0, 123456789.123456789, 1e22, 1e23]


def gen_value(rng, depth=0):
    k = rng.randrange(17 if depth < 3 else 10)
    if k == 0: return rng.choice([None, True, False, Ellipsis, StopIteration])
    if k in (1, 2): return rng.choice(INTS + [rng.randrange(-2 ** 70, 2 ** 70), rng.randrange(-2 ** 31, 2 ** 31), rng.randrange(-300, 300)])
    if k == 3: return rng.choice(FLOATS + [rng.random(), rng.uniform(-1e10, 1e10)])
    if k == 4: return complex(rng.choice(FLOATS), rng.choice(FLOATS))
    if k == 5: return bytes(bytearray(rng.randrange(256) for _ in range(rng.choice([0, 1, 5, 255, 256, 300]))))
    if k in (6, 7, 8): return rng.choice(TEXTS[:-1] + ["".join(chr(rng.choice([rng.randrange(32, 127), rng.randrange(128, 256), rng.randrange(256, 0xD800), rng.randrange(0xE000, 0x110000)])) for _ in range(rng.randrange(8)))])
    if k == 9: return rng.randrange(-5, 300)
    n = rng.choice([0, 1, 2, 3, 300 if depth == 0 else 2])
    if k in (10, 11): return tuple(gen_value(rng, depth + 1) for _ in range(n))
    if k == 12: return [gen_value(rng, depth + 1) for _ in range(n)]
    if k == 13: return frozenset(rng.choice([1, "a", b"b", 2.5, None, (1, 2), "€", 2 ** 40]) for _ in range(n))
    if k == 14: return set(rng.choice([1, "a", b"b", 2.5, None, -1, "\xe9"]) for _ in range(n))
    return dict((rng.choice([1, "k", None, (1, 2), "\xe9", 2 ** 70]), gen_value(rng, depth + 1)) for _ in range(n))


class _TextToBytes(object):
    """xdis.marsh.dump writes str chunks (one char per byte) and bytes chunks to f.write; a binary file needs bytes"""
    def __init__(self, f):
        self.f = f

    def write(self, chunk):
        if isinstance(chunk, str):
            chunk = bytes(bytearray(ord(c) for c in chunk))
        self.f.write(chunk)


def main():
    count, seed = int(sys.argv[1]), int(sys.argv[2])
    import xdis.marsh as X
    rng = random.Random(seed)
    vals = [(t,) for t in TEXTS] + [(i,) for i in INTS] + [(f,) for f in FLOATS] + [(1 + 2j, b"", b"\x00\xff", (), [], {}, set(), frozenset())]
    vals += [gen_value(rng) for _ in range(count)]
    out = {"host": "%d.%d.%d" % sys.version_info[:3], "evaluations": 0, "violations": []}
    seen = set()

    def vio(direction, v, detail):
        key = "%s:%s" % (direction, detail.split(":")[0].split("(")[0][:60])
        if direction.endswith("->load") and "%c requires int or char" in detail:
            key = "file-load-unusable-on-python3"
        if direction == "dump->marshal.loads" and "to a binary file raised TypeError" in detail:
            key = "file-dump-writes-str-chunks"
        if key in seen:
            return
        seen.add(key)
        out["violations"].append({"direction": direction, "value": repr(v)[:200], "detail": detail[:300], "key": key})

    for v in vals:
        out["evaluations"] += 1
        try:
            data = X.dumps(v)
        except Exception as e:
            vio("dumps->marshal.loads", v, "xdis.marsh.dumps raised %s: %s" % (type(e).__name__, e))
            data = None
        if data is not None:
            try:
                back = marshal.loads(data)
                d = same(v, back)
            except Exception as e:
                d = "marshal.loads rejected the bytes: %s: %s" % (type(e).__name__, e)
            if d:
                vio("dumps->marshal.loads", v, d)
        # the file-object forms of the same two functions
        import io
        out["evaluations"] += 1
        try:
            f = io.BytesIO()
            X.dump(v, f)
            d = same(v, marshal.loads(f.getvalue()))
        except Exception as e:
            d = "xdis.marsh.dump to a binary file raised %s: %s" % (type(e).__name__, e)
        if d:
            vio("dump->marshal.loads", v, d)
        # the chunks dump() writes, converted the way dumps() converts them: the marshaller itself is the one of dumps()
        out["evaluations"] += 1
        try:
            f = io.BytesIO()
            X.dump(v, _TextToBytes(f))
            d = same(v, marshal.loads(f.getvalue()))
        except Exception as e:
            d = "xdis.marsh.dump (chunks converted) raised or wrote what marshal.loads rejects: %s: %s" % (type(e).__name__, e)
        if d:
            vio("dump(chunks converted)->marshal.loads", v, d)
        for ver in (0, 1):
            out["evaluations"] += 1
            try:
                hd = marshal.dumps(v, ver)
            except ValueError:
                continue
            try:
                back = X.loads(hd)
                d = same(v, back)
            except Exception as e:
                d = "xdis.marsh.loads raised %s: %s" % (type(e).__name__, e)
            if d:
                vio("marshal.dumps(v,%d)->loads" % ver, v, d)
            try:
                back = X.load(io.BytesIO(hd))
                d = same(v, back)
            except Exception as e:
                d = "xdis.marsh.load raised %s: %s" % (type(e).__name__, e)
            if d:
                vio("marshal.dumps(v,%d)->load" % ver, v, d)
    print(json.dumps(out))


main()
