"""Bounded check for C18: the result of every public operation equals the result of the same operation done first in
a fresh interpreter, whatever was done before it; and no operation changes a process-wide xdis table that existed
before it (explicit remapping is not part of the catalogue).  Labelled bounded."""
import glob
import json
import os
import random
import subprocess
import sys
from concurrent.futures import ThreadPoolExecutor

HERE = os.path.dirname(os.path.dirname(os.path.abspath(__file__)))


def catalogue(repo):
    ops = []
    pick = {}
    for d in ("bytecode_1.5", "bytecode_2.4", "bytecode_2.7", "bytecode_2.7pypy", "bytecode_3.3", "bytecode_3.6", "bytecode_3.8", "bytecode_pypy38", "bytecode_3.10", "bytecode_3.11", "bytecode_3.12"):
        fs = sorted(glob.glob(os.path.join(repo, "test", d, "*.pyc")), key=lambda p: (-min(os.path.getsize(p), 3000), p))
        pick[d] = [os.path.relpath(f, repo) for f in fs[:2]]
    for d, fs in sorted(pick.items()):
        for i, f in enumerate(fs):
            ops.append(["load", f])
            for fmt in (("classic", "extended") if i == 0 else ("xasm", "bytes")):
                ops.append(["disasm", f, fmt])
            if i == 0:
                ops.append(["labels", f])
    for v in ((2, 7), (3, 6), (3, 8), (3, 11), (3, 13), (1, 5), (2, 4)):
        for variant in ("", "pypy"):
            if variant == "pypy" and v not in ((2, 7), (3, 6), (3, 8)):
                continue
            ops.append(["opc", list(v), variant])
            ops.append(["stdapi", list(v), variant])
    for i in range(6):
        ops.append(["marsh", i])
    return ops


def run_seq(repo, ops):
    env = dict(os.environ, PYTHONPATH=repo, PYTHONDONTWRITEBYTECODE="1", PYTHONHASHSEED="0")
    p = subprocess.run([sys.executable, os.path.join(HERE, "ground", "history_worker.py"), repo], input=json.dumps(ops), capture_output=True, text=True, env=env, timeout=1200)
    try:
        return json.loads(p.stdout)
    except Exception:
        return {"error": (p.stderr or "")[-400:]}


def check(tier="quick", seed=0):
    repo = os.environ.get("XDIS_REPO", "/repo")
    rng = random.Random(seed or 1)
    ops = catalogue(repo)
    nseq, length = (24, 14) if tier == "quick" else (200, 30)
    with ThreadPoolExecutor(16) as ex:
        fresh = list(ex.map(lambda op: run_seq(repo, [op]), ops))
        seqs = []
        for s in range(nseq):
            seq = [rng.choice(ops) for _ in range(length)]
            if s % 3 == 0:
                # same-version neighbourhoods: operations on one version family right after each other, each repeated
                fam = rng.choice(["2.7", "3.8", "3.6", "3.11", "1.5", "2.4", "pypy"])
                near = [o for o in ops if fam in json.dumps(o).replace("[2, 7]", "2.7").replace("[3, 8]", "3.8").replace("[3, 6]", "3.6").replace("[3, 11]", "3.11").replace("[1, 5]", "1.5").replace("[2, 4]", "2.4")]
                if near:
                    seq = [rng.choice(near) for _ in range(length - 4)] + [rng.choice(ops) for _ in range(4)]
                    rng.shuffle(seq)
                    seq = seq + seq[:3]
            seqs.append(seq)
        results = list(ex.map(lambda sq: run_seq(repo, sq), seqs))
    base = {}
    vio, n = [], 0
    seen = set()
    for op, r in zip(ops, fresh):
        if isinstance(r, dict):
            return {"name": "ground.history", "error": "fresh run of %r failed: %s" % (op, r.get("error")), "obligations": [], "violations": []}
        base[json.dumps(op)] = r[0]
        n += 1
        if r[0]["changed"]:
            key = "table-changed:%s:%s" % (op[0], r[0]["changed"][0])
            if key not in seen:
                seen.add(key)
                vio.append({"name": "C18/bounded/table-changed", "key": key, "input": json.dumps([op]), "detail": "operation %r changed process-wide table(s) %s" % (op, r[0]["changed"][:4])})
    for seq, res in zip(seqs, results):
        if isinstance(res, dict):
            return {"name": "ground.history", "error": "sequence failed: %s" % res.get("error"), "obligations": [], "violations": []}
        for i, r in enumerate(res):
            n += 1
            b = base[json.dumps(r["op"])]
            if r["digest"] != b["digest"]:
                key = "history-dependent:%s" % json.dumps(r["op"])[:80]
                if key not in seen:
                    seen.add(key)
                    vio.append({"name": "C18/bounded/history-dependent-result", "key": key, "input": json.dumps(seq[:i + 1]),
                                "detail": "result of %r after %d earlier operations differs from its result in a fresh interpreter (%s vs %s; error %s vs %s)" % (r["op"], i, r["digest"], b["digest"], r["error"], b["error"])})
            if r["changed"]:
                key = "table-changed:%s:%s" % (r["op"][0], r["changed"][0])
                if key not in seen:
                    seen.add(key)
                    vio.append({"name": "C18/bounded/table-changed", "key": key, "input": json.dumps(seq[:i + 1]), "detail": "operation %r changed process-wide table(s) %s" % (r["op"], r["changed"][:4])})
    return {"name": "ground.history", "kind": "bounded",
            "bound": "catalogue of %d operations (load_module, disassemble_file in 4 formats, label finder around an instruction walk, get_opcode_module, make_std_api + stack effects, marsh dumps/loads) over 22 corpus files and 10 version/variant tables; each alone in a fresh interpreter, then %d random sequences of %d operations; state = every module-/class-level dict, list, set, mutable default and memo of loaded xdis modules" % (len(ops), nseq, length),
            "evaluations": n, "violations": vio, "obligations": [], "samples": [{"sequence": seqs[0][:5]}],
            "assumptions": ["bounded: histories are random sequences over a fixed catalogue; state is observed through digests of containers reachable from module and class namespaces (objects reachable only through instances are not snapshotted)"]}
