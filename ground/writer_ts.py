"""C13 ground obligations (exhaustive over a finite domain): the forms of write_bytecode_file's compilation_ts argument that the
deductive contract does not range over -- None and 0 (the writer stamps the current time), a datetime instance, and a value of
another type (TypeError) -- for the magic of every final CPython release and both kinds of code object.  The contract proves the
header for every int timestamp >= 1; here the real function is run once per (magic, kind, form) with the marshallers stubbed,
and the bytes are decoded with C06's header specification (spec/pyc_header)."""
import os
import shutil
import struct
import tempfile
import time
from datetime import datetime


def check(tier="quick", seed=0):
    import xdis.load as L
    from spec import pyc_header as H
    obl, vio = [], []

    def ob(name, ok, key=None, detail=None):
        obl.append({"name": "C13/" + name, "status": "discharged" if ok else "refuted", "backend": "evaluation", "time_s": 0})
        if not ok:
            vio.append({"name": "C13/" + name, "key": key, "detail": detail})
    native = compile("x = 1", "<s>", "exec")
    d = tempfile.mkdtemp(prefix="xdis-verif-wts-")
    saved = L.marshal.dumps, L.xdis.marsh.dumps
    fixed = datetime(2020, 2, 3, 4, 5, 6)
    try:
        L.marshal.dumps = lambda c: b"BODY"
        L.xdis.marsh.dumps = lambda c, *a, **k: b"BODY"
        for mi, v in sorted(H.FINAL_MAGICS.items()):
            if mi in (39170, 39171):
                continue      # 1.0/1.1 magics do not end in \r\n (as in the contract's configurations)
            fam = H.family(v)
            for kind in ("native", "portable"):
                if kind == "portable" and (2, 0) <= tuple(v) < (2, 3):
                    continue  # refused: the contract's obligation
                code = native if kind == "native" else object()
                for form, ts in (("None", None), ("0", 0), ("datetime", fixed), ("omitted", "omitted")):
                    nm = "writer-timestamp/%d.%d/%d/%s/%s" % (v[0], v[1], mi, kind, form)
                    p = os.path.join(d, "o.pyc")
                    t0 = int(time.time())
                    try:
                        if ts == "omitted":
                            L.write_bytecode_file(p, code, mi)
                        else:
                            L.write_bytecode_file(p, code, mi, ts, 77)
                        data = open(p, "rb").read()
                    except Exception as e:
                        ob(nm, False, key=nm, detail={"call": "write_bytecode_file(p, <%s code>, %d, %r, 77)" % (kind, mi, ts), "raised": repr(e)[:200]})
                        continue
                    t1 = int(time.time())
                    off = 8 if fam == "pep552" else 4
                    n = off + 4 + (4 if fam != "ts" else 0)
                    got_ts = struct.unpack("<I", data[off:off + 4])[0] if len(data) >= off + 4 else None
                    want_size = 0 if ts == "omitted" else 77
                    ok = (len(data) == n + 4 and data[n:] == b"BODY" and data[:4] == struct.pack("<H", mi) + b"\r\n"
                          and (fam != "pep552" or data[4:8] == b"\0\0\0\0")
                          and (fam == "ts" or data[off + 4:off + 8] == struct.pack("<I", want_size))
                          and got_ts is not None and ((got_ts == int(fixed.timestamp())) if form == "datetime" else (t0 - 1 <= got_ts <= t1 + 1)))
                    ob(nm, ok, key=nm, detail={"call": "write_bytecode_file(p, <%s code>, %d%s)" % (kind, mi, "" if ts == "omitted" else ", %r, 77" % (ts,)),
                                               "file": data[:24].hex(), "expected header bytes": n, "timestamp read back": got_ts, "clock": [t0, t1]})
                nm = "writer-timestamp/%d.%d/%d/%s/bad-type" % (v[0], v[1], mi, kind)
                try:
                    L.write_bytecode_file(os.path.join(d, "o.pyc"), code, mi, "yesterday", 0)
                    ob(nm, False, key=nm, detail={"problem": "a str timestamp was accepted"})
                except TypeError:
                    ob(nm, True)
                except Exception as e:
                    ob(nm, False, key=nm, detail={"raised": repr(e)[:200]})
    finally:
        L.marshal.dumps, L.xdis.marsh.dumps = saved
        shutil.rmtree(d, ignore_errors=True)
    return {"name": "ground.writer_ts", "kind": "ground", "obligations": obl, "violations": vio, "evaluations": len(obl),
            "assumptions": ["the wall clock does not step by more than a second during one call; marshallers stubbed (their output is the contract's abstract body)"]}
