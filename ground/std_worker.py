"""Worker of ground/std_diff.py (C20, bounded): runs under one host (3.8-3.13) with PYTHONPATH=<repo>: xdis.std against the
host's own dis for every kind of object dis accepts."""
import dis
import json
import sys

SRC = '''
import sys
def plain(a, b=2, *c, d=3, **e):
    x = [i * a for i in range(b)]
    try:
        with open(a) as f:
            return f.read() is not None and a not in e
    except (OSError, ValueError) as err:
        raise RuntimeError("x") from err
    finally:
        x.clear()
def gen(n):
    for i in range(n):
        if i % 2:
            continue
        yield i
    return n
async def coro(q):
    async with q as r:
        async for s in r:
            await s
    return [t async for t in q]
async def agen(n):
    for i in range(n):
        yield i
        await n
class K:
    attr = 1
    def meth(self, y):
        def inner(z):
            nonlocal y
            y += z
            return lambda: (y, z, self)
        return inner
    @classmethod
    def cm(cls):
        return super().__new__(cls)
big = {i: str(i) for i in range(300)} if len(sys.argv) > 99 else None
'''


def norm(av):
    if hasattr(av, "co_code"):
        return "<code %s>" % av.co_name
    if isinstance(av, (set, frozenset)):
        return sorted(map(repr, av))
    return repr(av)


def rows(ins, with_targets):
    out = []
    for i in ins:
        sl = i.starts_line
        if isinstance(sl, bool):
            # 3.13's dis: starts_line is a flag and line_number carries the line; compared in the older form (line or None)
            sl = i.line_number if sl else None
        r = [i.offset, i.opcode, i.opname, i.arg, sl]
        if with_targets:
            r.append(bool(i.is_jump_target))
        out.append(r)
    return out


def main():
    import xdis.std as S
    ns = {}
    exec(compile(SRC, "std_src.py", "exec"), ns)
    k = ns["K"]()
    objs = {"function": ns["plain"], "generator-function": ns["gen"], "coroutine-function": ns["coro"], "method": k.meth, "class": ns["K"],
            "generator": ns["gen"](3), "code": ns["plain"].__code__, "nested-code": [c for c in ns["K"].meth.__code__.co_consts if hasattr(c, "co_code")][0],
            "source": "a = [b for b in range(3)]\nprint(a)\n", "classmethod": ns["K"].cm}
    co = ns["coro"](None)
    objs["coroutine"] = co
    objs["async-generator-function"] = ns["agen"]
    objs["async-generator"] = ns["agen"](2)
    out = {"host": "%d.%d" % sys.version_info[:2], "evaluations": 0, "diffs": []}
    hv = sys.version_info[:2]
    tables = dict(opmap=dis.opmap, opname=dis.opname, hasconst=dis.hasconst, hasname=dis.hasname, hasjrel=dis.hasjrel, hasjabs=dis.hasjabs,
                  haslocal=dis.haslocal, hascompare=dis.hascompare, hasfree=dis.hasfree, HAVE_ARGUMENT=dis.HAVE_ARGUMENT, EXTENDED_ARG=dis.EXTENDED_ARG)
    for name, ref in tables.items():
        out["evaluations"] += 1
        got = getattr(S, name, None)
        if got is None:
            out["diffs"].append({"what": "table %s" % name, "obj": "-", "dis": "present", "xdis": "xdis.std has no attribute %s" % name})
            continue
        if name.startswith("has"):
            # category lists: compared as sets of real opcodes (order is not data; numbers >= 256 are dis-internal pseudo-ops)
            a, b = sorted(set(o for o in ref if o < 256)), sorted(set(o for o in got if o < 256))
        elif name == "opmap":
            a, b = sorted((k, v) for k, v in ref.items() if v < 256), sorted((k, v) for k, v in got.items() if v < 256)
        elif name == "opname":
            a, b = list(ref)[:256], list(got)[:256]
        else:
            a, b = ref, got
        if a != b:
            out["diffs"].append({"what": "table %s" % name, "obj": "-", "dis": repr(a)[:160], "xdis": repr(b)[:160]})
    for kind, x in objs.items():
        for first_line in (None, 1000):
            out["evaluations"] += 1
            try:
                kw = {} if first_line is None else {"first_line": first_line}
                ref = list(dis.get_instructions(x, **kw))
            except Exception as e:
                ref = "EXC %s" % type(e).__name__
            try:
                got = list(S.get_instructions(x, **kw))
            except Exception as e:
                got = "EXC %s: %s" % (type(e).__name__, str(e)[:80])
            if isinstance(ref, str) or isinstance(got, str):
                if (isinstance(ref, str)) != (isinstance(got, str)):
                    out["diffs"].append({"what": "get_instructions accepts", "obj": kind, "dis": str(ref)[:120], "xdis": str(got)[:120]})
                continue
            ref = [i for i in ref if i.opname != "CACHE"]
            got = [i for i in got if i.opname != "CACHE"]
            with_t = hv < (3, 13)       # 3.13's dis also marks exception-range boundaries; the property says jump / handler targets
            a, b = rows(ref, with_t), rows(got, with_t)
            if a != b:
                d = next(((p, q) for p, q in zip(a, b) if p != q), (len(a), len(b)))
                out["diffs"].append({"what": "instruction fields (offset, opcode, opname, arg, starts_line%s)" % (", is_jump_target" if with_t else ""), "obj": "%s first_line=%s" % (kind, first_line), "dis": repr(d[0]), "xdis": repr(d[1])})
            # argval for table-indexed and jump operands
            cats = set(dis.hasconst) | set(dis.hasname) | set(dis.haslocal) | set(dis.hasfree) | set(dis.hascompare) | set(dis.hasjrel) | set(dis.hasjabs)
            for p, q in zip(ref, got):
                if p.opcode in cats and p.offset == q.offset:
                    x1, x2 = norm(p.argval), norm(q.argval)
                    if p.opcode in dis.hascompare:
                        x2 = x2.replace("not-in", "not in").replace("is-not", "is not").replace("exception-match", "exception match")
                    if x1 != x2:
                        out["diffs"].append({"what": "argval of %s" % p.opname, "obj": "%s@%d" % (kind, p.offset), "dis": x1[:100], "xdis": x2[:100]})
                        break
        for fn in ("findlabels", "findlinestarts"):
            code = x if hasattr(x, "co_code") else getattr(x, "__code__", None) or getattr(getattr(x, "__func__", None), "__code__", None) or getattr(x, "gi_code", None) or getattr(x, "cr_code", None) or getattr(x, "ag_code", None)
            if code is None:
                continue
            out["evaluations"] += 1
            try:
                a = list(getattr(dis, fn)(code.co_code if fn == "findlabels" else code))
                b = list(getattr(S, fn)(code.co_code if fn == "findlabels" else code))
                if fn == "findlabels":
                    a, b = sorted(set(a)), sorted(set(b))
                else:
                    a, b = [list(t) for t in a], [list(t) for t in b]
                    if hv >= (3, 13):
                        a = [t for t in a if t[1] is not None]
                        b = [t for t in b if t[1] is not None]
            except Exception as e:
                a, b = "ok", "EXC %s: %s" % (type(e).__name__, str(e)[:80])
            if a != b:
                out["diffs"].append({"what": fn, "obj": kind, "dis": repr(a)[:160], "xdis": repr(b)[:160]})
    co.close()
    sys.stdout.write(json.dumps(out))


if __name__ == "__main__":
    main()
