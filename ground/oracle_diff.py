"""Bounded differential of xdis's decoders against what the nine installed CPythons themselves report for the code objects
of 12 programs each (spec/ref/oracle_*.json, produced by tools/oracle_dump.py): instruction stream, operands, labels, line
starts, co_lines, co_positions, exception table, code-object fields.  The comparison code is tools/diff_oracle.py; this
wrapper selects the kinds of difference that belong to one property.  Labelled bounded (fixed programs)."""
import contextlib
import io
import os
import sys

HERE = os.path.dirname(os.path.dirname(os.path.abspath(__file__)))

KINDS = {
    "C01": ("load_code", "co_"),
    "C02": ("extra-instr", "missing-instr", "instr.offset", "instr.opcode", "instr.opname", "instr.arg@", "Bytecode"),
    "C03": ("instr.argval",),
    "C04": ("findlabels", "instr.is_jump_target"),
    "C05": ("findlinestarts", "co_lines", "instr.starts_line"),
    "C17": ("co_positions", "exception_entries"),
}


def check(tier="quick", seed=0, prop="C05"):
    sys.path.insert(0, os.path.join(HERE, "tools"))
    import diff_oracle
    vio, n, seen = [], 0, set()
    wanted = KINDS[prop]
    for ver in ("2.7", "3.6", "3.7", "3.8", "3.9", "3.10", "3.11", "3.12", "3.13"):
        if not os.path.exists(os.path.join(HERE, "spec", "ref", "oracle_%s.json" % ver)):
            continue
        with contextlib.redirect_stdout(io.StringIO()):
            ds = diff_oracle.run(ver, verbose=False)
        o = diff_oracle.load(ver)
        n += sum(len(c.get("instructions", [])) + 4 for cos in o["programs"].values() for c in cos)
        for (v, prog, idx, what, want, got) in ds:
            if not any(what.startswith(k) or (k.endswith("@") and what.startswith(k)) for k in wanted):
                continue
            if what.startswith("instr.arg") and not what.startswith("instr.arg@") and prop == "C02":
                continue
            if what.startswith("instr.is_jump_target") and ver == "3.13":
                continue      # CPython 3.13's dis also marks the starts/ends of exception ranges; the property says handler targets
            name = "%s/bounded/oracle/%s" % (prop, what.split("@")[0])
            key = "oracle:%s:%s" % (ver, what.split("@")[0])
            if what.startswith("instr.argval") and "COMPARE_OP" in what and str(got) in ("not-in", "is-not", "exception-match"):
                name = "%s/bounded/oracle/KF-cmp_op-spelling" % prop
                key = "cmp_op-spelling"
            if key in seen:
                continue
            seen.add(key)
            vio.append({"name": name, "key": key, "input": "CPython %s, program %r, code object #%d (spec/ref/oracle_%s.json)" % (ver, prog, idx, ver),
                        "detail": "%s: CPython %r, xdis %r" % (what, want, got)})
    return {"name": "ground.oracle_diff(%s)" % prop, "kind": "bounded", "bound": "code objects of 12 programs x CPython 2.7, 3.6-3.13 (oracle dumps): %s" % ", ".join(wanted),
            "evaluations": n, "violations": vio, "obligations": [], "samples": [{"oracle": "spec/ref/oracle_3.12.json", "program": "async"}],
            "assumptions": ["bounded: xdis's decoders are compared with the interpreters' own dis / code-object methods on 12 fixed programs per version"]}
