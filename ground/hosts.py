"""Bounded check for C07: the same bytecode files decoded and listed under each installed host interpreter 3.8-3.13
(each file takes the native marshal fast path on exactly one host and xdis's unmarshaller on the others), and on the
native host additionally through xdis's unmarshaller; results compared modulo object addresses and the banner lines
that name the host.  Labelled bounded."""
import binascii
import glob
import json
import os
import re
import shutil
import struct
import subprocess
import tempfile

HERE = os.path.dirname(os.path.dirname(os.path.abspath(__file__)))
HOSTS = ["3.8.18", "3.9.18", "3.10.13", "3.11.7", "3.12.1", "3.13.0"]
CODE_REPR = re.compile(r"<(?:Code\w+ )?code\d* object [^>]*>(?:, line \d+)?")


def first_diff(a, b):
    la, lb = a.split("\n"), b.split("\n")
    for i, (x, y) in enumerate(zip(la, lb)):
        if x != y:
            return i, x, y
    if len(la) != len(lb):
        return min(len(la), len(lb)), "<%d lines>" % len(la), "<%d lines>" % len(lb)
    return None


def check(tier="quick", seed=0):
    repo = os.environ.get("XDIS_REPO", "/repo")
    tmp = tempfile.mkdtemp(prefix="xdis-verif-c07-")
    vio, n, seen, skipped = [], 0, set(), []
    try:
        files = []
        per = 2 if tier == "quick" else 8
        for d in ("bytecode_2.7", "bytecode_3.3", "bytecode_3.6", "bytecode_3.8", "bytecode_3.9", "bytecode_3.10", "bytecode_3.11", "bytecode_3.12", "bytecode_pypy38"):
            fs = sorted(glob.glob(os.path.join(repo, "test", d, "*.pyc")), key=lambda p: (-min(os.path.getsize(p), 3000), p))
            files += fs[:per]
        for ver in ("3.8", "3.9", "3.10", "3.11", "3.12", "3.13", "2.7", "3.6"):
            p = os.path.join(HERE, "spec", "ref", "oracle_%s.json" % ver)
            if not os.path.exists(p):
                continue
            o = json.load(open(p))
            vt = tuple(int(x) for x in ver.split("."))
            progs = sorted(o["programs"])
            if tier == "quick":
                progs = [q for q in progs if q in ("async", "exc", "closures", "linegaps")]
            for prog in progs:
                raw = binascii.unhexlify(o["programs"][prog][0]["marshal"])
                hdr = binascii.unhexlify(o["magic"]) + (b"\0" * 4 if vt >= (3, 7) else b"") + struct.pack("<I", 1) + (struct.pack("<I", 1) if vt >= (3, 3) else b"")
                d = os.path.join(tmp, "v%s" % ver)
                os.makedirs(d, exist_ok=True)
                f = os.path.join(d, "%s.pyc" % prog)
                with open(f, "wb") as fh:
                    fh.write(hdr + raw + b"\0" * 40)      # padding: load_module wants >= 50 bytes
                files.append(f)
        procs = []
        for h in HOSTS:
            exe = "/root/.pyenv/versions/%s/bin/python" % h
            if not os.path.exists(exe):
                skipped.append(h)
                continue
            env = dict(os.environ, PYTHONPATH=repo, PYTHONDONTWRITEBYTECODE="1", PYTHONHASHSEED="0", PYTHONWARNINGS="ignore")
            pr = subprocess.Popen([exe, os.path.join(HERE, "ground", "hosts_worker.py"), repo], stdin=subprocess.PIPE, stdout=subprocess.PIPE, stderr=subprocess.PIPE, env=env, text=True)
            procs.append((h, pr))
        outs = {}
        for h, pr in procs:
            so, se = pr.communicate(json.dumps(files), timeout=1500)
            try:
                outs[h] = json.loads(so)
            except Exception:
                from ground.common import worker_failed
                return worker_failed("ground.hosts", h, se, repo)
        ref_host = sorted(outs)[0]

        def rel(f):
            return os.path.relpath(f, repo) if f.startswith(repo) else "compiled/" + os.path.relpath(f, tmp)

        SETBODY = re.compile(r"\{([^{}]*)\}")

        def line_class(x, y):
            """why two corresponding lines differ: a recorded cosmetic difference, or None"""
            if ("code object" in x or "code2 object" in x) and ("code object" in y or "code2 object" in y):
                return "code-object-repr-native-vs-portable"
            nx = SETBODY.sub(lambda m: "{" + ",".join(sorted(t.strip() for t in m.group(1).split(","))) + "}", x)
            ny = SETBODY.sub(lambda m: "{" + ",".join(sorted(t.strip() for t in m.group(1).split(","))) + "}", y)
            if nx == ny:
                return "set-constant-element-order"
            return None

        def report(kind, f, view, a_host, b_host, a, b):
            la, lb = a.split("\n"), b.split("\n")
            classes, other = set(), None
            if len(la) != len(lb):
                other = (min(len(la), len(lb)), "<%d lines>" % len(la), "<%d lines>" % len(lb))
            else:
                for i, (x, y) in enumerate(zip(la, lb)):
                    if x != y:
                        c = line_class(x, y)
                        if c is None:
                            other = (i, x, y)
                            break
                        classes.add((c, i, x, y))
            found = []
            if other is not None:
                found.append((kind, "%s:%s:%s" % (kind, view, rel(f).split(os.sep)[1] if os.sep in rel(f) else rel(f)), other))
            else:
                for c in sorted(set(k[0] for k in classes)):
                    ex = [k for k in classes if k[0] == c][0]
                    found.append((c, c, ex[1:]))
            for cls, key, (i, x, y) in found:
                if key in seen:
                    continue
                seen.add(key)
                vio.append({"name": "C07/bounded/%s" % cls, "key": key, "input": rel(f), "detail": "%s [%s]: host %s vs host %s differ at line %d: %r vs %r" % (rel(f), view, a_host, b_host, i, x[:140], y[:140])})

        for f in files:
            ref = outs[ref_host]["files"][f]
            for h in sorted(outs):
                cur = outs[h]["files"][f]
                for view in sorted(set(ref) | set(cur)):
                    if view in ("path",) or view.startswith("portable-on-native-host"):
                        continue
                    n += 1
                    if view not in ref or view not in cur:
                        report("missing-view", f, view, ref_host, h, ref.get(view, ref.get("error", "<absent>")), cur.get(view, cur.get("error", "<absent>")))
                        continue
                    if ref[view] != cur[view]:
                        report("host-dependent", f, view, ref_host, h, ref[view], cur[view])
                # loader paths on the native host
                for view in ("content", "instructions"):
                    a, b = cur.get("load:" + view), cur.get("portable-on-native-host:" + view)
                    if a is not None and b is not None:
                        n += 1
                        if a != b:
                            report("loader-path-dependent", f, view, h + " native", h + " portable", a, b)
        natives = sum(1 for h in outs for f in files if outs[h]["files"][f].get("path") == "native")
    finally:
        shutil.rmtree(tmp, ignore_errors=True)
    return {"name": "ground.hosts", "kind": "bounded",
            "bound": "%d files (corpus 2.7, 3.3, 3.6, 3.8-3.12, PyPy 3.8 + programs compiled by 2.7, 3.6, 3.8-3.13) x hosts %s: header, decoded content, instruction stream with labels and line starts, 4 listing formats; %d (host, file) pairs took the native fast path and were also read through xdis's unmarshaller on the same host" % (len(files), ",".join(sorted(outs)), natives),
            "evaluations": n, "violations": vio, "obligations": [], "samples": [{"file": rel(f)} for f in files[:3]], "skipped": ("no interpreter: " + ",".join(skipped)) if skipped else None,
            "assumptions": ["bounded: host independence is observed on a fixed set of files under the six installed interpreters"]}
