"""Bounded check attached to C01: kind and exact value of every constant.  Each installed interpreter (2.7, 3.6-3.13) compiles
a program with every kind of constant its source text can produce (Python 2: str / unicode / int / long; Python 3: text with
astral and lone-surrogate code points / bytes; floats incl. -0.0, inf, nan; complex; nested tuples; frozensets; nested code)
and dumps the constant tree *typed* (kind + exact value); xdis's load_code reads the same marshal bytes and its tree is dumped
the same way and compared.  Complements ground.unmarshal_diff, which compares 3.x constants by repr and skips 2.7's.
Labelled bounded."""
import binascii
import io
import json
import os
import struct
import subprocess
import sys

HERE = os.path.dirname(os.path.dirname(os.path.abspath(__file__)))
HOSTS = ("2.7.18", "3.6.15", "3.7.16", "3.8.18", "3.9.18", "3.10.13", "3.11.7", "3.12.1", "3.13.0")


def hx(b):
    return binascii.hexlify(b).decode("ascii")


def typed(c, py2):
    """xdis's representation on a Python 3 host -> the worker's typed form.  Python 2 str constants arrive as str when they are
    valid UTF-8 and as bytes otherwise; unicode as UnicodeForPython3 (.value = UTF-8 bytes); long as LongTypeForPython3."""
    from xdis.cross_types import LongTypeForPython3, UnicodeForPython3
    if c is None:
        return ["None"]
    if c is True or c is False:
        return ["bool", bool(c)]
    if c is Ellipsis:
        return ["Ellipsis"]
    if hasattr(c, "co_code"):
        return ["code", str(c.co_name), [typed(x, py2) for x in c.co_consts]]
    if isinstance(c, LongTypeForPython3):
        return ["long", str(c.value)]
    if isinstance(c, UnicodeForPython3):
        return ["unicode", hx(c.value)]
    if isinstance(c, int):
        return ["int", str(int(c))]
    if isinstance(c, str):
        return ["str2", hx(c.encode("utf-8"))] if py2 else ["unicode", hx(c.encode("utf-8", "surrogatepass"))]
    if isinstance(c, (bytes, bytearray)):
        return ["str2" if py2 else "bytes", hx(bytes(c))]
    if isinstance(c, float):
        return ["float", hx(struct.pack("<d", c))]
    if isinstance(c, complex):
        return ["complex", hx(struct.pack("<d", c.real)), hx(struct.pack("<d", c.imag))]
    if isinstance(c, tuple):
        return ["tuple", [typed(x, py2) for x in c]]
    if isinstance(c, (frozenset, set)):
        return ["frozenset" if isinstance(c, frozenset) else "set", sorted((typed(x, py2) for x in c), key=lambda t: json.dumps(t))]
    return ["?", "%s %r" % (type(c).__name__, c)]


def first_diff(a, b, path="consts"):
    if a == b:
        return None
    if isinstance(a, list) and isinstance(b, list) and a and b and a[0] == b[0] and a[0] in ("code", "tuple", "frozenset"):
        xa, xb = a[-1], b[-1]
        if a[0] == "code" and a[1] != b[1]:
            return "%s: code name %r vs %r" % (path, a[1], b[1])
        if len(xa) != len(xb):
            return "%s: %d vs %d elements" % (path, len(xa), len(xb))
        for i, (p, q) in enumerate(zip(xa, xb)):
            d = first_diff(p, q, "%s%s[%d]" % (path, "<%s>" % a[1] if a[0] == "code" else "", i))
            if d:
                return d
    return "%s: CPython has %s, xdis has %s" % (path, json.dumps(a)[:120], json.dumps(b)[:120])


def check(tier="quick", seed=0):
    repo = os.environ.get("XDIS_REPO", "/repo")
    if repo not in sys.path:
        sys.path.insert(0, repo)
    from xdis.magics import magic2int
    from xdis.unmarshal import load_code
    vio, n, ran = [], 0, []
    for h in HOSTS:
        exe = "/root/.pyenv/versions/%s/bin/python" % h
        if not os.path.exists(exe):
            continue
        p = subprocess.run([exe, os.path.join(HERE, "ground", "consts_worker.py")], capture_output=True, text=True, timeout=120, env=dict(os.environ, PYTHONDONTWRITEBYTECODE="1"))
        try:
            d = json.loads(p.stdout)
        except Exception:
            return {"name": "ground.consts_diff", "error": "worker under %s failed: %s" % (h, p.stderr[-300:]), "obligations": [], "violations": []}
        ran.append(h)
        ver = ".".join(str(x) for x in d["version"][:2])
        raw = binascii.unhexlify(d["marshal"])
        count = json.dumps(d["typed"]).count('["')
        n += count
        fp = io.BytesIO(raw)
        try:
            co = load_code(fp, magic2int(binascii.unhexlify(d["magic"])))
        except Exception as e:
            import traceback
            vio.append({"name": "bounded/consts-%s" % ver, "key": "consts:%s:raises" % ver, "input": "marshal.dumps of ground/consts_worker's program compiled by CPython %s" % h,
                        "detail": "load_code raised %s: %s | %s" % (type(e).__name__, str(e)[:100], traceback.format_exc()[-400:].replace("\n", " | "))})
            continue
        if fp.tell() != len(raw):
            vio.append({"name": "bounded/consts-%s" % ver, "key": "consts:%s:consumed" % ver, "input": "program of ground/consts_worker compiled by CPython %s" % h,
                        "detail": "payload not consumed exactly: %d of %d bytes" % (fp.tell(), len(raw))})
        try:
            diff = first_diff(d["typed"], typed(co, d["version"][0] == 2))
        except Exception as e:
            diff = "typed dump of xdis's constants raised %s: %s" % (type(e).__name__, str(e)[:120])
        if diff:
            vio.append({"name": "bounded/consts-%s" % ver, "key": "consts:%s" % ver, "input": "program of ground/consts_worker compiled by CPython %s (marshal bytes %s...)" % (h, d["marshal"][:40]),
                        "detail": diff})
    if not ran:
        return {"name": "ground.consts_diff", "error": "no interpreter ran", "obligations": [], "violations": []}
    return {"name": "ground.consts_diff", "kind": "bounded", "bound": "one constants-rich program per interpreter x %s: kind and exact value of every constant, recursively" % ",".join(ran),
            "evaluations": n, "violations": vio, "obligations": [], "samples": [{"program": "ground/consts_worker.SRC2 / SRC3"}],
            "assumptions": ["bounded: constants of one program per version; on a Python 3 host xdis presents Python 2 str constants as str when valid UTF-8 and bytes otherwise (both compared as the byte string), unicode as UnicodeForPython3, long as LongTypeForPython3"]}
