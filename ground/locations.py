"""Bounded check attached to C17: the location-entry parser (xdis.codetype.code311.parse_location_entries, a function of
nested generators and closures that pyvc does not model) and Code311.co_positions()/co_lines() against CPython 3.11, 3.12
and 3.13 themselves on generated well-formed location tables installed in real code objects.  Labelled bounded."""
import json
import os
import subprocess

HERE = os.path.dirname(os.path.dirname(os.path.abspath(__file__)))


def check(tier="quick", seed=0):
    repo = os.environ.get("XDIS_REPO", "/repo")
    n = 2000 if tier == "quick" else 60000
    vio, evals, tables, hosts, seen = [], 0, 0, [], set()
    for h in ("3.11.7", "3.12.1", "3.13.0"):
        exe = "/root/.pyenv/versions/%s/bin/python" % h
        if not os.path.exists(exe):
            continue
        env = dict(os.environ, PYTHONPATH=repo, PYTHONDONTWRITEBYTECODE="1")
        p = subprocess.run([exe, os.path.join(HERE, "ground", "locations_worker.py"), str(n), str(seed)], capture_output=True, text=True, env=env, timeout=3000)
        try:
            d = json.loads(p.stdout)
        except Exception:
            from ground.common import worker_failed
            return worker_failed("ground.locations", h, p.stderr, repo)
        hosts.append(h)
        evals += d["evaluations"]
        tables += d["tables"]
        for x in d["diffs"]:
            key = "locations:%s" % x["what"]
            if key in seen:
                continue
            seen.add(key)
            vio.append({"name": "C17/bounded/locations", "key": key,
                        "input": "host %s: co_linetable=bytes.fromhex(%r), co_firstlineno=%d installed with code.replace() in a code object of NOPs" % (d["host"], x["table"], x["first_line"]),
                        "detail": "%s differs: CPython %s, xdis %s" % (x["what"], x["cpython"], x["xdis"])})
    if not hosts or tables == 0:
        return {"name": "ground.locations", "error": "no 3.11+ interpreter ran or no table was accepted", "obligations": [], "violations": []}
    return {"name": "ground.locations", "kind": "bounded",
            "bound": "%d generated location tables per host (every first byte's code 0-15 forced 4 times, 0-12 further entries, lengths 1-8, varints to 2^20, negative line deltas) x hosts %s" % (tables // len(hosts), ",".join(hosts)),
            "evaluations": evals, "violations": vio, "obligations": [], "samples": [{"generator": "ground/locations_worker.gen_table"}],
            "assumptions": ["bounded: parse_location_entries is compared with CPython on generated tables only; lines are kept >= 1 (CPython reports a computed line of -1 as None)"]}
