"""Bounded differential for C14 (stand-in for the parts of xdis.marsh that are not under a deductive contract:
text, float, container writers and the fast reader's container/text paths): both directions of the property
against the built-in marshal of each installed host interpreter 3.8-3.13.  Labelled bounded."""
import json
import os
import subprocess

HERE = os.path.dirname(os.path.dirname(os.path.abspath(__file__)))
HOSTS = ["3.8.18", "3.9.18", "3.10.13", "3.11.7", "3.12.1", "3.13.0"]


def check(tier="quick", seed=0):
    repo = os.environ.get("XDIS_REPO", "/repo")
    count = 150 if tier == "quick" else 4000
    vio, n, skipped, samples = [], 0, [], []
    procs = []
    for h in HOSTS:
        exe = "/root/.pyenv/versions/%s/bin/python" % h
        if not os.path.exists(exe):
            skipped.append(h)
            continue
        env = dict(os.environ, PYTHONPATH=repo, PYTHONDONTWRITEBYTECODE="1")
        procs.append((h, subprocess.Popen([exe, os.path.join(HERE, "ground", "marsh_host_worker.py"), str(count), str(seed or 1)],
                                          stdout=subprocess.PIPE, stderr=subprocess.PIPE, env=env, text=True)))
    for h, p in procs:
        try:
            so, se = p.communicate(timeout=900)
            d = json.loads(so)
        except Exception as e:
            from ground.common import worker_failed
            return worker_failed("ground.marsh_diff", h, (se if ("se" in dir() and se) else repr(e)), repo)
        n += d["evaluations"]
        samples.append({"host": h, "evaluations": d["evaluations"]})
        for v in d["violations"]:
            vio.append({"name": "C14/bounded/%s" % v["direction"], "key": v["key"], "host": h, "input": v["value"], "detail": v["detail"]})
    return {"name": "ground.marsh_diff", "kind": "bounded", "bound": "%d generated values + %d fixed edge values x hosts %s x {xdis.marsh.dumps -> marshal.loads, marshal.dumps(v, 0|1) -> xdis.marsh.loads}" % (count, 120, ",".join(h for h, _ in procs)),
            "evaluations": n, "violations": vio, "obligations": [], "samples": samples, "skipped": ("no interpreter: " + ",".join(skipped)) if skipped else None,
            "assumptions": ["bounded: the text/float/complex/container writers and the fast reader's non-integer paths are compared with the hosts' marshal on generated values only"]}
