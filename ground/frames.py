"""Static frame (effect) analysis over /repo's ASTs: which effect primitives can a public entry point reach?

This is the frame-condition half of the contracts for C11 ("never executes, imports or compiles anything from the
file or writes to the file system"), C12 ("nothing except the listing is written to standard output") and C18 ("no
call alters tables that later calls read"): an `assigns`/effects clause checked syntactically, function by function,
over an over-approximated call graph:

  * a call `f(...)` resolves through the lexical scope and the module's imports;
  * a call `obj.m(...)` on anything that is not a module resolves to EVERY function or method named `m` in the
    package (dynamic dispatch is over-approximated by name);
  * a call through any other expression (`table[k](...)`) resolves to every function whose name is used as a
    value somewhere in the package (dispatch tables are filled by such references);
  * instantiating a class reaches its `__init__` (and those of same-named bases).

One obligation per reachable function and effect class: "the body contains no primitive of that class".
The analysis never executes repository code.  It is sound for the listed primitive spellings only; what it cannot
see is listed in `ASSUMPTIONS`."""
import ast
import os
import sys

ASSUMPTIONS = [
    "static frame analysis: effects are recognised by the spelling of the primitive (exec, eval, compile, __import__, importlib.*, open(mode), os.*, shutil.*, subprocess.*, print, sys.stdout.write, assignments/mutations of module-level names); getattr()/setattr() with computed names, C extensions and monkey-patching are not tracked",
    "calls on objects resolve by method name to every same-named function of the package (over-approximation); calls through other expressions resolve to every function referenced as a value",
]

EXEC_PRIMS = {"exec", "eval", "compile", "__import__", "execfile", "importlib.import_module", "importlib.__import__", "importlib.reload", "runpy.run_path", "runpy.run_module",
              "imp.load_module", "imp.load_source", "imp.load_compiled", "pickle.loads", "pickle.load", "os.system", "os.popen", "os.execv", "os.execve", "os.spawnv",
              "subprocess.Popen", "subprocess.run", "subprocess.call", "subprocess.check_call", "subprocess.check_output"}
FS_PRIMS = {"os.remove", "os.unlink", "os.rename", "os.replace", "os.mkdir", "os.makedirs", "os.rmdir", "os.removedirs", "os.truncate", "os.chmod", "os.chown", "os.symlink", "os.link",
            "os.write", "shutil.rmtree", "shutil.copy", "shutil.copyfile", "shutil.move", "shutil.copytree", "tempfile.mkstemp", "tempfile.mkdtemp", "tempfile.NamedTemporaryFile",
            "tempfile.TemporaryFile", "io.open", "codecs.open"}
MUTATORS = {"append", "extend", "insert", "remove", "pop", "clear", "update", "add", "discard", "setdefault", "sort", "reverse", "popitem"}


class Fn(object):
    def __init__(self, module, qualname, node, cls=None, parent=None):
        self.module, self.qualname, self.node, self.cls, self.parent = module, qualname, node, cls, parent
        self.key = "%s:%s" % (module, qualname)
        self.name = qualname.split(".")[-1]


class Package(object):
    def __init__(self, repo):
        self.repo = repo
        self.modules = {}       # modname -> (tree, path)
        self.fns = {}           # key -> Fn
        self.by_name = {}       # simple name -> [Fn]
        self.imports = {}       # modname -> {local name: ("mod", modname) | ("obj", modname, name)}
        self.module_vars = {}   # modname -> set of module-level assigned names
        self.classes = {}       # modname -> {class name: ClassDef}
        self.class_vars = {}    # (modname, class) -> set of class-level assigned names
        self.value_refs = set()   # function simple names used as values
        root = os.path.join(repo, "xdis")
        for dp, dn, fnames in os.walk(root):
            dn[:] = [d for d in dn if d != "__pycache__"]
            for fn in fnames:
                if fn.endswith(".py"):
                    p = os.path.join(dp, fn)
                    rel = os.path.relpath(p, repo)[:-3].replace(os.sep, ".")
                    if rel.endswith(".__init__"):
                        rel = rel[:-9]
                    try:
                        tree = ast.parse(open(p, encoding="utf-8", errors="replace").read(), p)
                    except SyntaxError:
                        continue
                    self.modules[rel] = (tree, p)
        for m, (tree, p) in self.modules.items():
            self._index(m, tree)

    def _index(self, m, tree):
        imps = self.imports.setdefault(m, {})
        mv = self.module_vars.setdefault(m, set())
        cl = self.classes.setdefault(m, {})
        pkg = m if self.modules[m][1].endswith("__init__.py") else m.rsplit(".", 1)[0] if "." in m else ""

        def absmod(level, name):
            if not level:
                return name
            base = pkg.split(".") if pkg else []
            base = base[:len(base) - (level - 1)] if level > 1 else base
            return ".".join(base + ([name] if name else []))

        for node in ast.walk(tree):
            if isinstance(node, ast.Import):
                for a in node.names:
                    imps[a.asname or a.name.split(".")[0]] = ("mod", a.name if a.asname else a.name.split(".")[0])
            elif isinstance(node, ast.ImportFrom):
                src = absmod(node.level, node.module or "")
                for a in node.names:
                    imps[a.asname or a.name] = ("obj", src, a.name)
        for node in tree.body:
            for t in _targets(node):
                mv.add(t)

        def visit(body, prefix, cls, parent):
            for node in body:
                if isinstance(node, (ast.FunctionDef, ast.AsyncFunctionDef)):
                    q = prefix + node.name
                    f = Fn(m, q, node, cls, parent)
                    self.fns[f.key] = f
                    self.by_name.setdefault(node.name, []).append(f)
                    visit(node.body, q + ".<locals>.", None, f)
                elif isinstance(node, ast.ClassDef):
                    cl[node.name] = node
                    cv = self.class_vars.setdefault((m, node.name), set())
                    for st in node.body:
                        for t in _targets(st):
                            cv.add(t)
                    visit(node.body, prefix + node.name + ".", node.name, parent)
                elif isinstance(node, (ast.If, ast.Try, ast.With, ast.For, ast.While)):
                    for sub in ("body", "orelse", "finalbody"):
                        visit(getattr(node, sub, []) or [], prefix, cls, parent)
                    for h in getattr(node, "handlers", []) or []:
                        visit(h.body, prefix, cls, parent)
        visit(tree.body, "", None, None)
        for node in ast.walk(tree):
            if isinstance(node, ast.Name) and isinstance(node.ctx, ast.Load):
                self.value_refs.add(node.id)
            elif isinstance(node, ast.Attribute) and isinstance(node.ctx, ast.Load):
                self.value_refs.add(node.attr)

    # ------------------------------------------------------------------ resolution
    def dotted(self, e):
        parts = []
        while isinstance(e, ast.Attribute):
            parts.append(e.attr)
            e = e.value
        if isinstance(e, ast.Name):
            parts.append(e.id)
            return list(reversed(parts))
        return None

    def resolve_name(self, fn, name):
        """-> ('fn', [Fn]) | ('class', mod, name) | ('prim', dotted) | ('mod', modname) | ('local', None)"""
        # lexical: parameters / locals shadow
        f = fn
        while f is not None:
            if name in _local_names(f.node):
                nested = self.fns.get("%s:%s.<locals>.%s" % (f.module, f.qualname, name))
                if nested is not None:
                    return ("fn", [nested])
                return ("local", None)
            f = f.parent
        return self.resolve_global(fn.module, name)

    def resolve_global(self, m, name, depth=0):
        k = "%s:%s" % (m, name)
        if k in self.fns:
            return ("fn", [self.fns[k]])
        if name in self.classes.get(m, {}):
            return ("class", m, name)
        imp = self.imports.get(m, {}).get(name)
        if imp is not None:
            if imp[0] == "mod":
                return ("mod", imp[1])
            src, nm = imp[1], imp[2]
            if src in self.modules and depth < 6:
                if (src + "." + nm) in self.modules:
                    return ("mod", src + "." + nm)
                return self.resolve_global(src, nm, depth + 1)
            if (src + "." + nm) in self.modules:
                return ("mod", src + "." + nm)
            return ("prim", "%s.%s" % (src, nm))
        if name in self.module_vars.get(m, ()):
            return ("var", m, name)
        return ("prim", name)

    def class_inits(self, m, name, seen=None):
        seen = seen or set()
        if (m, name) in seen:
            return []
        seen.add((m, name))
        out = []
        node = self.classes.get(m, {}).get(name)
        if node is None:
            return out
        k = "%s:%s.__init__" % (m, name)
        if k in self.fns:
            out.append(self.fns[k])
        for b in node.bases:
            d = self.dotted(b)
            if d:
                r = self.resolve_global(m, d[0]) if len(d) == 1 else None
                if r and r[0] == "class":
                    out += self.class_inits(r[1], r[2], seen)
        return out

    def class_methods(self, m, cname, meth, seen=None):
        """the method `meth` of class cname as found along its bases"""
        seen = seen or set()
        if (m, cname) in seen:
            return []
        seen.add((m, cname))
        k = "%s:%s.%s" % (m, cname, meth)
        if k in self.fns:
            return [self.fns[k]]
        out = []
        node = self.classes.get(m, {}).get(cname)
        for b in (node.bases if node is not None else []):
            d = self.dotted(b)
            if d and len(d) == 1:
                r = self.resolve_global(m, d[0])
                if r[0] == "class":
                    out += self.class_methods(r[1], r[2], meth, seen)
        return out

    def subclass_methods(self, m, cname, meth):
        out = []
        for (m2, classes) in self.classes.items():
            for c2, node in classes.items():
                if (m2, c2) == (m, cname):
                    continue
                if self.derives_from(m2, c2, m, cname):
                    k = "%s:%s.%s" % (m2, c2, meth)
                    if k in self.fns:
                        out.append(self.fns[k])
        return out

    def derives_from(self, m2, c2, m, cname, depth=0):
        node = self.classes.get(m2, {}).get(c2)
        if node is None or depth > 8:
            return False
        for b in node.bases:
            d = self.dotted(b)
            if d and len(d) == 1:
                r = self.resolve_global(m2, d[0])
                if r[0] == "class":
                    if (r[1], r[2]) == (m, cname) or self.derives_from(r[1], r[2], m, cname, depth + 1):
                        return True
        return False

    def local_instances(self, fn):
        """local variables bound (only) to instances of a package class: name -> (module, class)"""
        cache = self.__dict__.setdefault("_li", {})
        if fn.key not in cache:
            binds = {}
            for n in _own_nodes(fn.node):
                if isinstance(n, ast.Assign) and len(n.targets) == 1 and isinstance(n.targets[0], ast.Name):
                    nm = n.targets[0].id
                    cls = None
                    if isinstance(n.value, ast.Call):
                        d = self.dotted(n.value.func)
                        if d and len(d) == 1:
                            r = self.resolve_name(fn, d[0])
                            if r[0] == "class":
                                cls = (r[1], r[2])
                    binds.setdefault(nm, []).append(cls)
            cache[fn.key] = dict((k, v[0]) for k, v in binds.items() if len(set(v)) == 1 and v[0] is not None)
        return cache[fn.key]

    def callees(self, fn):
        """(list of Fn, list of primitive names) called from fn's own body (nested defs excluded)"""
        fns, prims = [], []
        for node in _own_nodes(fn.node):
            if not isinstance(node, ast.Call):
                continue
            f = node.func
            if isinstance(f, ast.Name):
                r = self.resolve_name(fn, f.id)
                if r[0] == "fn":
                    fns += r[1]
                elif r[0] == "class":
                    fns += self.class_inits(r[1], r[2])
                elif r[0] == "prim":
                    prims.append((r[1], node))
                elif r[0] in ("local", "var"):
                    fns += self.unknown_callees(fn)
                continue
            d = self.dotted(f)
            if d is not None:
                head = self.resolve_name(fn, d[0])
                if head[0] == "mod":
                    modname = head[1]
                    rest = d[1:]
                    # walk into submodules
                    while rest and (modname + "." + rest[0]) in self.modules:
                        modname = modname + "." + rest[0]
                        rest = rest[1:]
                    if modname in self.modules and len(rest) == 1:
                        r = self.resolve_global(modname, rest[0])
                        if r[0] == "fn":
                            fns += r[1]
                            continue
                        if r[0] == "class":
                            fns += self.class_inits(r[1], r[2])
                            continue
                        if r[0] == "prim":
                            prims.append((r[1], node))
                            continue
                    if modname in self.modules and len(rest) == 2 and rest[0] in self.classes.get(modname, {}):
                        k = "%s:%s.%s" % (modname, rest[0], rest[1])
                        if k in self.fns:
                            fns.append(self.fns[k])
                            continue
                    if modname not in self.modules:
                        prims.append((".".join([modname] + rest), node))
                        continue
                if head[0] == "class" and len(d) == 2:
                    ms = self.class_methods(head[1], head[2], d[1])
                    if ms:
                        fns += ms
                        continue
                if len(d) == 2 and d[0] in ("self", "cls") and fn.cls and head[0] == "local":
                    # a method of the receiver's own class: as found along its bases, or overridden in a subclass
                    ms = self.class_methods(fn.module, fn.cls, d[1]) + self.subclass_methods(fn.module, fn.cls, d[1])
                    if ms:
                        fns += ms
                        continue
                if len(d) == 2 and head[0] == "local":
                    ci = self.local_instances(fn).get(d[0])
                    if ci is not None:
                        ms = self.class_methods(ci[0], ci[1], d[1]) + self.subclass_methods(ci[0], ci[1], d[1])
                        if ms:
                            fns += ms
                            continue
                # method call on an object: every same-named function
                fns += self.by_name.get(d[-1], [])
                prims.append(("?." + d[-1], node))
                continue
            if isinstance(f, ast.Attribute):
                if isinstance(f.value, ast.Call) and isinstance(f.value.func, ast.Name) and f.value.func.id == "super" and fn.cls:
                    ms = []
                    cnode = self.classes.get(fn.module, {}).get(fn.cls)
                    for b in (cnode.bases if cnode is not None else []):
                        bd = self.dotted(b)
                        if bd and len(bd) == 1:
                            r = self.resolve_global(fn.module, bd[0])
                            if r[0] == "class":
                                ms += self.class_methods(r[1], r[2], f.attr)
                    if ms or f.attr == "__init__":
                        fns += ms
                        continue
                fns += self.by_name.get(f.attr, [])
                prims.append(("?." + f.attr, node))
                continue
            fns += self.unknown_callees(fn)
        return fns, prims

    def unknown_callees(self, fn=None):
        """callees of a call through a computed expression (dispatch table, getattr): every function of the calling
        function's module whose name is used as a value in that module (tables are filled by such references), and
        every method of the calling method's class"""
        if fn is None:
            return []
        cache = self.__dict__.setdefault("_unk", {})
        key = (fn.module, fn.cls)
        if key not in cache:
            refs = self.module_value_refs(fn.module)
            out = [f for f in self.fns.values() if f.module == fn.module and f.name in refs and not f.name.startswith("__")]
            if fn.cls:
                out += [f for f in self.fns.values() if f.module == fn.module and f.cls == fn.cls and f not in out]
            cache[key] = out
        return cache[key]

    def module_value_refs(self, m):
        cache = self.__dict__.setdefault("_mvr", {})
        if m not in cache:
            refs = set()
            tree = self.modules[m][0]
            called = set()
            for node in ast.walk(tree):
                if isinstance(node, ast.Call):
                    called.add(id(node.func))
            for node in ast.walk(tree):
                if id(node) in called:
                    continue
                if isinstance(node, ast.Name) and isinstance(node.ctx, ast.Load):
                    refs.add(node.id)
                elif isinstance(node, ast.Attribute) and isinstance(node.ctx, ast.Load):
                    refs.add(node.attr)
                elif isinstance(node, ast.Constant) and isinstance(node.value, str) and node.value.isidentifier():
                    refs.add(node.value)          # names looked up with getattr(self, "t_" ...)-style tables
            cache[m] = refs
        return cache[m]

    def reachable(self, roots):
        seen, order, stack = {}, [], []
        for r in roots:
            f = self.fns.get(r)
            if f is None:
                raise KeyError("root %s not found" % r)
            stack.append((f, None))
        while stack:
            f, via = stack.pop()
            if f.key in seen:
                continue
            seen[f.key] = via
            order.append(f)
            fl, _ = self.callees(f)
            for g in fl:
                if g.key not in seen:
                    stack.append((g, f.key))
            # nested functions are reachable when their parent is (they may be returned / called)
            for k, g in self.fns.items():
                if g.parent is f and k not in seen:
                    stack.append((g, f.key))
        return order, seen


def _targets(st):
    out = []
    if isinstance(st, ast.Assign):
        for t in st.targets:
            for n in ast.walk(t):
                if isinstance(n, ast.Name) and isinstance(n.ctx, ast.Store):
                    out.append(n.id)
    elif isinstance(st, (ast.AnnAssign, ast.AugAssign)) and isinstance(st.target, ast.Name):
        out.append(st.target.id)
    elif isinstance(st, (ast.If, ast.Try, ast.For, ast.While, ast.With)):
        for sub in ("body", "orelse", "finalbody"):
            for s2 in getattr(st, sub, []) or []:
                out += _targets(s2)
        for h in getattr(st, "handlers", []) or []:
            for s2 in h.body:
                out += _targets(s2)
    return out


def _own_nodes(fnode):
    stack = list(fnode.body)
    for d in fnode.args.defaults + [x for x in fnode.args.kw_defaults if x is not None]:
        stack.append(d)
    while stack:
        n = stack.pop()
        yield n
        for c in ast.iter_child_nodes(n):
            if isinstance(c, (ast.FunctionDef, ast.AsyncFunctionDef, ast.ClassDef, ast.Lambda)):
                if isinstance(c, ast.Lambda):
                    stack.append(c.body)
                continue
            stack.append(c)


_LOCALS_CACHE = {}


def _local_names(fnode):
    r = _LOCALS_CACHE.get(id(fnode))
    if r is not None:
        return r[1]
    names = set(a.arg for a in fnode.args.posonlyargs + fnode.args.args + fnode.args.kwonlyargs)
    if fnode.args.vararg:
        names.add(fnode.args.vararg.arg)
    if fnode.args.kwarg:
        names.add(fnode.args.kwarg.arg)
    globs = set()
    for n in _own_nodes(fnode):
        if isinstance(n, ast.Global):
            globs.update(n.names)
        elif isinstance(n, ast.Name) and isinstance(n.ctx, ast.Store):
            names.add(n.id)
        elif isinstance(n, (ast.Import, ast.ImportFrom)):
            pass
        elif isinstance(n, ast.ExceptHandler) and n.name:
            names.add(n.name)
    for n in fnode.body:
        if isinstance(n, (ast.FunctionDef, ast.AsyncFunctionDef, ast.ClassDef)):
            names.add(n.name)
    names -= globs
    _LOCALS_CACHE[id(fnode)] = (fnode, names)
    return names


# ---------------------------------------------------------------------------------------------- effects
def _mode_of_open(call):
    mode = None
    if len(call.args) > 1:
        mode = call.args[1]
    for k in call.keywords:
        if k.arg == "mode":
            mode = k.value
    if mode is None:
        return "r"
    if isinstance(mode, ast.Constant) and isinstance(mode.value, str):
        return mode.value
    return None      # computed


def effects_of(pkg, fn):
    """list of (class, description, lineno) for the primitives in fn's own body"""
    out = []
    _, prims = pkg.callees(fn)
    for name, node in prims:
        base = name.split(".")[-1]
        if name in EXEC_PRIMS or (name.startswith("importlib.") and base in ("import_module", "reload", "__import__")) or name.startswith("subprocess."):
            out.append(("exec", name, node.lineno))
        if name in ("open", "io.open", "codecs.open"):
            md = _mode_of_open(node)
            if md is None or any(ch in md for ch in "wax+"):
                out.append(("fs-write", "%s(mode=%s)" % (name, md if md is not None else "<computed>"), node.lineno))
        elif name in FS_PRIMS:
            out.append(("fs-write", name, node.lineno))
        if name == "print":
            tgt = None
            for k in node.keywords:
                if k.arg == "file":
                    tgt = k.value
            if tgt is None:
                out.append(("stdout", "print() without file=", node.lineno))
            else:
                d = pkg.dotted(tgt)
                if d == ["sys", "stdout"]:
                    out.append(("stdout", "print(file=sys.stdout)", node.lineno))
        if name in ("sys.stdout.write", "sys.stdout.writelines"):
            out.append(("stdout", name, node.lineno))
    for d in fn.node.decorator_list:
        dn = ast.unparse(d)
        if any(t in dn for t in ("lru_cache", "functools.cache", "cached_property")) or dn in ("cache", "memoize", "memoized"):
            out.append(("global-write", "memoised by @%s: one result object is shared by all later calls" % dn[:40], fn.node.lineno))
    restored = _restored_in_finally(fn.node)
    # writes to module-level / class-level state
    for n in _own_nodes(fn.node):
        if isinstance(n, ast.Global):
            for nm in n.names:
                out.append(("global-write", "global %s" % nm, n.lineno))
        tgts = []
        if isinstance(n, ast.Assign):
            tgts = n.targets
        elif isinstance(n, (ast.AugAssign, ast.AnnAssign)):
            tgts = [n.target]
        elif isinstance(n, ast.Delete):
            tgts = n.targets
        for t in tgts:
            for sub in ([t] if not isinstance(t, (ast.Tuple, ast.List)) else t.elts):
                root, via = _store_root(sub)
                if root is None or via == "name":
                    continue
                kind = shared_kind(pkg, fn, root)
                if not kind and isinstance(sub, ast.Subscript):
                    kind = class_table_kind(pkg, fn, sub.value) or borrowed_attr_kind(pkg, fn, sub.value)
                if kind and ast.unparse(sub) in restored:
                    continue          # saved before and put back in a finally block of the same function
                if kind:
                    out.append(("global-write", "%s of %s (%s)" % (via, ast.unparse(sub)[:60], kind), n.lineno))
        if isinstance(n, ast.Assign) and isinstance(n.value, ast.Name) and any(isinstance(t, ast.Attribute) for t in n.targets):
            dk = shared_kind(pkg, fn, n.value)
            if dk and dk.startswith("mutable default"):
                out.append(("global-write", "%s escapes into %s" % (dk, ast.unparse(n.targets[0])[:40]), n.lineno))
        if isinstance(n, ast.Call) and isinstance(n.func, ast.Attribute) and n.func.attr in MUTATORS:
            root, via = _store_root(n.func.value, allow_name=True)
            if root is not None:
                kind = shared_kind(pkg, fn, root) or class_table_kind(pkg, fn, n.func.value) or borrowed_attr_kind(pkg, fn, n.func.value)
                if kind:
                    out.append(("global-write", ".%s() on %s (%s)" % (n.func.attr, ast.unparse(n.func.value)[:60], kind), n.lineno))
        if isinstance(n, ast.Call) and isinstance(n.func, ast.Name) and n.func.id == "setattr" and n.args:
            root, via = _store_root(n.args[0], allow_name=True)
            if root is not None:
                kind = shared_kind(pkg, fn, root)
                if kind:
                    out.append(("global-write", "setattr(%s, ...) (%s)" % (ast.unparse(n.args[0])[:40], kind), n.lineno))
    return out


def _restored_in_finally(fnode):
    out = set()
    for n in ast.walk(fnode):
        if isinstance(n, ast.Try) and n.finalbody:
            for st in n.finalbody:
                if isinstance(st, ast.Assign):
                    for t in st.targets:
                        out.add(ast.unparse(t))
    return out


def borrowed_attr_kind(pkg, fn, expr):
    """expr is `self.attr` and some method of the class binds self.attr to an object the instance did not create: a bare
    name or attribute chain rooted at a parameter, a module or a class (no call, no display, no copying slice).  Mutating
    it changes an object that other holders (e.g. the opcode module a table came from) still read."""
    if not (isinstance(expr, ast.Attribute) and isinstance(expr.value, ast.Name) and expr.value.id == "self" and fn.cls):
        return None
    cnode = pkg.classes.get(fn.module, {}).get(fn.cls)
    if cnode is None:
        return None
    for sub in ast.walk(cnode):
        if isinstance(sub, ast.Assign):
            for t in sub.targets:
                if isinstance(t, ast.Attribute) and isinstance(t.value, ast.Name) and t.value.id == "self" and t.attr == expr.attr:
                    v = sub.value
                    if isinstance(v, (ast.Name, ast.Attribute)):
                        root = v
                        while isinstance(root, ast.Attribute):
                            root = root.value
                        if isinstance(root, ast.Name) and root.id != "self" and isinstance(v, ast.Attribute):
                            return "self.%s is bound to %s without copying (line %d)" % (expr.attr, ast.unparse(v)[:40], sub.lineno)
    return None


def class_table_kind(pkg, fn, expr):
    """expr is `<local>.attr` where attr is a class-level dict/list/set of some package class that no method rebinds
    per instance: the mutation goes to the table shared by every instance"""
    if not (isinstance(expr, ast.Attribute) and isinstance(expr.value, ast.Name)):
        return None
    if pkg.resolve_name(fn, expr.value.id)[0] != "local":
        return None
    attr = expr.attr
    for (m, cname), names in pkg.class_vars.items():
        if attr not in names:
            continue
        cnode = pkg.classes[m][cname]
        mutable = False
        for st in cnode.body:
            if isinstance(st, ast.Assign) and any(isinstance(t, ast.Name) and t.id == attr for t in st.targets):
                v = st.value
                if isinstance(v, (ast.Dict, ast.List, ast.Set)) or (isinstance(v, ast.Call) and isinstance(v.func, ast.Name) and v.func.id in ("dict", "list", "set", "defaultdict")):
                    mutable = True
        if not mutable:
            continue
        rebound = False
        for sub in ast.walk(cnode):
            if isinstance(sub, ast.Assign):
                for t in sub.targets:
                    if isinstance(t, ast.Attribute) and isinstance(t.value, ast.Name) and t.value.id == "self" and t.attr == attr:
                        rebound = True
        if not rebound:
            return "class-level table %s.%s.%s reached through an instance" % (m, cname, attr)
    return None


def _store_root(t, allow_name=False):
    """root expression of a store target: returns (ast.Name | dotted list, how)"""
    via = "name"
    e = t
    while isinstance(e, (ast.Subscript, ast.Attribute)):
        via = "item assignment" if isinstance(e, ast.Subscript) and via == "name" else ("attribute assignment" if via == "name" else via)
        e = e.value
    if isinstance(e, ast.Name):
        if via == "name" and not allow_name:
            return e, "name"
        return e, via if via != "name" else "mutation"
    return None, None


def local_aliases(pkg, fn):
    """local names bound (by a plain assignment anywhere in the function) to a module-level / class-level object:
    mutating the local mutates the shared object"""
    cache = pkg.__dict__.setdefault("_aliases", {})
    if fn.key not in cache:
        out = {}
        for n in _own_nodes(fn.node):
            if isinstance(n, ast.Assign) and len(n.targets) == 1 and isinstance(n.targets[0], ast.Name):
                v = n.value
                src = None
                if isinstance(v, ast.Name) and v.id != n.targets[0].id:
                    r = pkg.resolve_name(fn, v.id)
                    if r[0] == "var":
                        src = "alias of module-level %s.%s" % (r[1], r[2])
                elif isinstance(v, ast.Attribute):
                    d = pkg.dotted(v)
                    if d and len(d) == 2:
                        r = pkg.resolve_name(fn, d[0])
                        if r[0] == "mod" and r[1] in pkg.modules and d[1] in pkg.module_vars.get(r[1], ()):
                            src = "alias of module-level %s.%s" % (r[1], d[1])
                        elif r[0] == "class" and d[1] in pkg.class_vars.get((r[1], r[2]), ()):
                            src = "alias of class-level %s.%s.%s" % (r[1], r[2], d[1])
                if src:
                    out[n.targets[0].id] = src
        cache[fn.key] = out
    return cache[fn.key]


def shared_kind(pkg, fn, name_node):
    """is this name (at the root of a mutated expression) process-wide state?  -> description or None"""
    nm = name_node.id
    r = pkg.resolve_name(fn, nm)
    if r[0] == "local":
        al = local_aliases(pkg, fn).get(nm)
        if al:
            return al
    if r[0] == "var":
        return "module-level %s.%s" % (r[1], r[2])
    if r[0] == "mod":
        return "module %s" % r[1]
    if r[0] == "class":
        return "class %s.%s" % (r[1], r[2])
    if r[0] == "local":
        # a parameter whose default is a mutable display is shared between calls
        f = fn
        while f is not None:
            a = f.node.args
            pos = a.posonlyargs + a.args
            for arg, d in list(zip(pos[len(pos) - len(a.defaults):], a.defaults)) + [(x, y) for x, y in zip(a.kwonlyargs, a.kw_defaults) if y is not None]:
                if arg.arg == nm and isinstance(d, (ast.List, ast.Dict, ast.Set)) :
                    # shared only if not rebound before use; conservatively reported unless the first statement rebinds it
                    return "mutable default argument %s of %s" % (nm, f.qualname)
            f = f.parent
        if nm in ("self", "cls") and fn.cls:
            return None
    return None


def analyse(repo, roots, classes, allow=()):
    """-> dict(functions=[...], findings=[(class, fnkey, description, lineno, path)])"""
    pkg = Package(repo)
    order, via = pkg.reachable(roots)
    findings = []
    for f in order:
        for cls, desc, ln in effects_of(pkg, f):
            if cls in classes and not any(a(f, cls, desc) for a in allow):
                chain = []
                k = f.key
                while k is not None and len(chain) < 12:
                    chain.append(k)
                    k = via.get(k)
                findings.append({"class": cls, "function": f.key, "what": desc, "line": ln, "file": os.path.relpath(pkg.modules[f.module][1], repo), "reached_via": list(reversed(chain))})
    return {"functions": [f.key for f in order], "findings": findings}


if __name__ == "__main__":
    import json
    res = analyse(sys.argv[1] if len(sys.argv) > 1 else "/repo", sys.argv[2].split(","), set(sys.argv[3].split(",")))
    print(len(res["functions"]), "functions reachable")
    for f in res["findings"]:
        print(json.dumps(f)[:400])


# ---------------------------------------------------------------------------------------------- host switches (C07)
HOST_NAMES = ("PYTHON_VERSION_TRIPLE", "PYTHON3", "IS_PYPY", "PYTHON_MAGIC_INT", "VARIANT")
HOSTS = {"3.8": ((3, 8, 18), 3413), "3.9": ((3, 9, 18), 3425), "3.10": ((3, 10, 13), 3439), "3.11": ((3, 11, 7), 3495), "3.12": ((3, 12, 1), 3531), "3.13": ((3, 13, 0), 3571)}


def host_env(h):
    vt, magic = HOSTS[h]
    return {"PYTHON_VERSION_TRIPLE": vt, "PYTHON3": True, "IS_PYPY": False, "PYTHON_MAGIC_INT": magic, "VARIANT": None,
            "sys.version_info": vt + ("final", 0)}


class _Unknown(object):
    pass


def _const(node):
    try:
        return True, ast.literal_eval(node)
    except Exception:
        return False, None


def peval(node, env):
    """partial evaluation of an expression with the host constants substituted: ('const', value) or ('expr', text)"""
    if isinstance(node, ast.Constant):
        return ("const", node.value)
    if isinstance(node, ast.Name):
        if node.id in env:
            return ("const", env[node.id])
        return ("expr", node.id)
    if isinstance(node, ast.Attribute):
        d = []
        e = node
        while isinstance(e, ast.Attribute):
            d.append(e.attr)
            e = e.value
        if isinstance(e, ast.Name):
            dotted = ".".join([e.id] + list(reversed(d)))
            if dotted in env:
                return ("const", env[dotted])
            if dotted.endswith((".PYTHON3", ".PYTHON_VERSION_TRIPLE", ".IS_PYPY", ".PYTHON_MAGIC_INT")):
                return ("const", env[dotted.rsplit(".", 1)[1]])
        k, v = peval(node.value, env)
        return ("expr", "%s.%s" % (v if k == "expr" else repr(v), node.attr))
    if isinstance(node, ast.Tuple):
        parts = [peval(x, env) for x in node.elts]
        if all(k == "const" for k, _ in parts):
            return ("const", tuple(v for _, v in parts))
        return ("expr", "(%s)" % ", ".join(repr(v) if k == "const" else v for k, v in parts))
    if isinstance(node, ast.Subscript):
        k, v = peval(node.value, env)
        if k == "const":
            try:
                sl = node.slice
                if isinstance(sl, ast.Slice):
                    lo = ast.literal_eval(sl.lower) if sl.lower is not None else None
                    hi = ast.literal_eval(sl.upper) if sl.upper is not None else None
                    return ("const", v[lo:hi])
                return ("const", v[ast.literal_eval(sl)])
            except Exception:
                pass
        return ("expr", "%s[%s]" % (repr(v) if k == "const" else v, ast.unparse(node.slice)))
    if isinstance(node, ast.UnaryOp) and isinstance(node.op, ast.Not):
        k, v = peval(node.operand, env)
        if k == "const":
            return ("const", not v)
        return ("expr", "not (%s)" % v)
    if isinstance(node, ast.Compare):
        parts = [peval(x, env) for x in [node.left] + list(node.comparators)]
        if all(k == "const" for k, _ in parts):
            try:
                vals = [v for _, v in parts]
                ok = True
                for op, a, b in zip(node.ops, vals, vals[1:]):
                    r = {ast.Lt: a < b, ast.LtE: a <= b, ast.Gt: a > b, ast.GtE: a >= b, ast.Eq: a == b, ast.NotEq: a != b}.get(type(op)) if type(op) in (ast.Lt, ast.LtE, ast.Gt, ast.GtE, ast.Eq, ast.NotEq) else None
                    if r is None:
                        if isinstance(op, ast.In):
                            r = a in b
                        elif isinstance(op, ast.NotIn):
                            r = a not in b
                        elif isinstance(op, ast.Is):
                            r = a is b
                        elif isinstance(op, ast.IsNot):
                            r = a is not b
                    ok = ok and bool(r)
                return ("const", ok)
            except Exception:
                pass
        return ("expr", " ".join([repr(parts[0][1]) if parts[0][0] == "const" else parts[0][1]] + ["%s %s" % (type(op).__name__, repr(v) if k == "const" else v) for op, (k, v) in zip(node.ops, parts[1:])]))
    if isinstance(node, ast.BoolOp):
        is_and = isinstance(node.op, ast.And)
        rest = []
        for x in node.values:
            k, v = peval(x, env)
            if k == "const":
                if is_and and not v:
                    return ("const", v) if not rest else ("expr", " and ".join(rest + [repr(v)]))
                if not is_and and v:
                    return ("const", v) if not rest else ("expr", " or ".join(rest + [repr(v)]))
                continue          # neutral element: drop
            rest.append("(%s)" % v)
        if not rest:
            return ("const", True if is_and else False)
        return ("expr", (" and " if is_and else " or ").join(rest))
    if isinstance(node, ast.IfExp):
        k, v = peval(node.test, env)
        if k == "const":
            return peval(node.body if v else node.orelse, env)
        a, b = peval(node.body, env), peval(node.orelse, env)
        return ("expr", "(%s if %s else %s)" % (a[1] if a[0] == "expr" else repr(a[1]), v, b[1] if b[0] == "expr" else repr(b[1])))
    # anything else: substitute inside by text
    txt = ast.unparse(node)
    uses = [n for n in ast.walk(node) if isinstance(n, ast.Name) and n.id in env]
    if uses:
        return ("expr", "HOST(%s):%s" % (",".join(sorted(set("%s=%r" % (n.id, env[n.id]) for n in uses))), txt))
    return ("expr", txt)


def host_reads(pkg, fn):
    """[(lineno, expression text, {host: residual})] for every expression of fn's body (and parameter defaults) that reads a
    host constant"""
    out = []
    exprs = []
    for n in _own_nodes(fn.node):
        if isinstance(n, (ast.If, ast.While, ast.Assert, ast.IfExp)):
            exprs.append((n.test, n.lineno if hasattr(n, "lineno") else fn.node.lineno))
        elif isinstance(n, (ast.Assign, ast.AugAssign, ast.AnnAssign, ast.Return, ast.Expr)) and getattr(n, "value", None) is not None:
            exprs.append((n.value, n.lineno))
    for d in fn.node.args.defaults + [x for x in fn.node.args.kw_defaults if x is not None]:
        exprs.append((d, fn.node.lineno))
    seen = set()
    for e, ln in exprs:
        names = set()
        for x in ast.walk(e):
            if isinstance(x, (ast.If, ast.IfExp)) and x is not e:
                pass
            if isinstance(x, ast.Name) and x.id in HOST_NAMES and pkg.resolve_name(fn, x.id)[0] != "local":
                names.add(x.id)
            elif isinstance(x, ast.Attribute) and x.attr in ("version_info", "PYTHON3", "PYTHON_VERSION_TRIPLE", "IS_PYPY", "PYTHON_MAGIC_INT") and isinstance(x.value, ast.Name) and x.value.id in ("sys", "xdis"):
                names.add(x.value.id + "." + x.attr)
        if not names or id(e) in seen:
            continue
        # an enclosing test already covers nested ones
        seen.update(id(x) for x in ast.walk(e))
        res = dict((h, peval(e, host_env(h))) for h in HOSTS)
        out.append((ln, ast.unparse(e)[:120], res))
    return out
