"""Shared by the bounded stand-ins that drive the tree under check inside another interpreter."""
import os
import re


def worker_failed(name, host, stderr, repo):
    """A worker that produced no result.  If its traceback ends in a file of the tree under check (the package does not import
    or raises under that host while doing what the property quantifies over), that is a failing input against the real code:
    a violation whose replay is the host and the traceback.  Anything else (the worker's own frames, no traceback, a time-out)
    is a checker error."""
    stderr = stderr or ""
    frames = re.findall(r'File "([^"]+)", line (\d+)', stderr)
    real = os.path.realpath(repo) + os.sep
    if frames and os.path.realpath(frames[-1][0]).startswith(real):
        rel = os.path.relpath(os.path.realpath(frames[-1][0]), real)
        last = stderr.strip().split("\n")[-1][:200]
        short = name.split(".")[-1]
        return {"name": name, "kind": "bounded", "bound": "aborted: the tree under check failed under host %s" % host, "evaluations": 1, "obligations": [],
                "violations": [{"name": "bounded/%s/fails-under-host" % short, "key": "host-fails:%s:%s" % (rel, last.split(":")[0]), "confirmed": True,
                                "input": "interpreter %s with PYTHONPATH=<tree>: what ground/%s.py's worker does (import the package, drive it)" % (host, short),
                                "detail": "%s | %s line %s | %s" % (last, rel, frames[-1][1], stderr[-700:].replace("\n", " | "))}],
                "assumptions": []}
    return {"name": name, "error": "worker under %s failed: %s" % (host, stderr[-400:]), "obligations": [], "violations": []}
