"""Bounded check for C19: freeze() of an {offset: line} table, decoded by xdis's line-start routine and by the matching
CPython's dis.findlinestarts, gives back the table.  Small-scope exhaustive over one step (every offset gap x every line
gap of the representative sets, incl. continuation entries and, for the signed formats, decreasing lines), sampled over
two and more steps.  Labelled bounded."""
import json
import os
import subprocess
import sys

HERE = os.path.dirname(os.path.dirname(os.path.abspath(__file__)))
PY = {"2.7": "2.7.18", "3.7": "3.7.16", "3.8": "3.8.18", "3.9": "3.9.18", "3.10": "3.10.13"}   # 3.3: no interpreter


def check(tier="quick", seed=0):
    repo = os.environ.get("XDIS_REPO", "/repo")
    count = 300 if tier == "quick" else 6000
    env = dict(os.environ, PYTHONPATH=repo, PYTHONDONTWRITEBYTECODE="1")
    p = subprocess.run([sys.executable, os.path.join(HERE, "ground", "freeze_worker.py"), str(count), str(seed or 1)], capture_output=True, text=True, env=env, timeout=1800)
    try:
        d = json.loads(p.stdout)
    except Exception:
        return {"name": "ground.freeze_roundtrip", "error": "worker failed: %s" % p.stderr[-400:], "obligations": [], "violations": []}
    vio, n, seen = [], d["evaluations"], set()

    def add(kind, case, detail):
        t = case["table"]
        shape = "%s:%s:len%d" % (kind, case["version"], len(t))
        if shape in seen:
            return
        seen.add(shape)
        vio.append({"name": "C19/bounded/%s" % kind, "key": shape, "input": json.dumps({"version": case["version"], "first": case["first"], "table": t}), "detail": detail[:300]})

    by_ver = {}
    for c in d["cases"]:
        if "error" in c:
            add("freeze-raises", c, c["error"])
            continue
        want = [list(x) for x in c["table"]]
        if c["xdis"] != want:
            add("xdis-decode", c, "encoded %r decodes to %r, table was %r" % (c["encoded"][:24], c["xdis"][:6], want[:6]))
        by_ver.setdefault(c["version"], []).append(c)
    skipped = []
    for ver, cases in sorted(by_ver.items()):
        full = PY.get(ver)
        exe = "/root/.pyenv/versions/%s/bin/python" % full if full else None
        if not exe or not os.path.exists(exe):
            skipped.append(ver)
            continue
        q = subprocess.run([exe, os.path.join(HERE, "ground", "freeze_target.py")], input=json.dumps([{k: c[k] for k in ("n", "encoded", "first")} for c in cases]),
                           capture_output=True, text=True, timeout=900)
        try:
            res = json.loads(q.stdout)
        except Exception:
            return {"name": "ground.freeze_roundtrip", "error": "decoder under %s failed: %s" % (exe, q.stderr[-300:]), "obligations": [], "violations": []}
        for c, got in zip(cases, res):
            n += 1
            want = [list(x) for x in c["table"]]
            if got != want:
                add("cpython-decode", c, "CPython %s decodes %r to %r, table was %r" % (ver, c["encoded"][:24], got[:6] if isinstance(got, list) else got, want[:6]))
    return {"name": "ground.freeze_roundtrip", "kind": "bounded",
            "bound": "code types Code2(2.7) Code3(3.3, 3.7) Code38(3.8, 3.9) Code310: every (offset gap, line gap) in {1,2,3,4,254..258,510,512,600,1024} x {+-1,2,126..129,254..257,300,511,1000} after one entry (3 table shapes), %d sampled two-step and %d random 2-5 step tables per type; decoded by xdis and by CPython 2.7/3.7-3.10" % (count, count),
            "evaluations": n, "violations": vio, "obligations": [],
            "samples": [{"version": c["version"], "table": c["table"], "encoded": c.get("encoded"), "decoded_by_xdis": c.get("xdis")} for c in d["cases"][:2] + d["cases"][-1:]], "skipped": ("no interpreter for " + ",".join(skipped)) if skipped else None,
            "assumptions": ["bounded: the line-table encoders are not under a deductive contract; decreasing lines are exercised only for the signed formats (3.8+), as the property states"]}
