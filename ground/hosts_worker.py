"""Worker of ground/hosts.py (C07, bounded): runs under one host interpreter (3.8-3.13) with PYTHONPATH=<repo>.
For every file: decoded content and listings through load_module (native fast path when the file's version is the
host's, xdis's unmarshaller otherwise); for files of the host's own version additionally through xdis's unmarshaller
(portable code object) so that the two loader paths and native-vs-portable code arguments are compared on one host."""
import io
import json
import os
import re
import sys

ADDR = re.compile(r"0x[0-9a-fA-F]{6,}")
FIELDS = ("co_argcount", "co_posonlyargcount", "co_kwonlyargcount", "co_nlocals", "co_stacksize", "co_flags", "co_code", "co_names", "co_varnames", "co_freevars",
          "co_cellvars", "co_filename", "co_name", "co_qualname", "co_firstlineno", "co_exceptiontable")


def text_of(v, ver, depth=0):
    if hasattr(v, "co_code"):
        parts = []
        for f in FIELDS:
            if f == "co_posonlyargcount" and ver < (3, 8):
                continue
            if f in ("co_qualname", "co_exceptiontable") and ver < (3, 11):
                continue
            if hasattr(v, f):
                x = getattr(v, f)
                if isinstance(x, list):
                    x = tuple(x)
                parts.append("%s=%s" % (f, text_of(x, ver, depth + 1)))
            else:
                parts.append("%s=<missing>" % f)
        lt = getattr(v, "co_linetable", None) if ver >= (3, 10) else getattr(v, "co_lnotab", None)
        if isinstance(lt, str):
            lt = lt.encode("latin-1")
        parts.append("linetable=%r" % (lt,))
        parts.append("consts=[%s]" % ", ".join(text_of(c, ver, depth + 1) for c in v.co_consts))
        return "code(\n%s%s)" % ("  " * depth, (";\n" + "  " * depth).join(parts))
    if isinstance(v, (tuple, list)):
        return "%s(%s)" % (type(v).__name__, ", ".join(text_of(x, ver, depth + 1) for x in v))
    if isinstance(v, (set, frozenset)):
        return "%s{%s}" % (type(v).__name__, ", ".join(sorted(text_of(x, ver, depth + 1) for x in v)))
    return "%s:%r" % (type(v).__name__, v)


def strip_banner(t):
    return "\n".join(l for l in t.split("\n") if not l.startswith("# Disassembled from Python") and not l.startswith("# pydisasm version") and not l.startswith("# ["))


def views(co, ver, is_pypy, label, out):
    from xdis.disasm import disco
    from xdis.op_imports import get_opcode_module
    from xdis.bytecode import Bytecode
    out[label + ":content"] = text_of(co, ver)
    for fmt in ("classic", "extended", "xasm"):
        s = io.StringIO()
        try:
            disco(ver, co, None, s, is_pypy, asm_format=fmt) if False else None
        except Exception:
            pass
    opc = get_opcode_module(ver, "pypy" if is_pypy else "")
    rows = []

    def walk(c):
        rows.append("# %s" % c.co_name)
        try:
            labels = sorted(opc.findlabels(c.co_code, opc))
            starts = list(opc.findlinestarts(c, dup_lines=True))
            rows.append("labels %r linestarts %r" % (labels, starts))
            for i in Bytecode(c, opc):
                av = i.argval
                if hasattr(av, "co_code"):
                    av = "<code %s>" % av.co_name
                elif isinstance(av, (set, frozenset)):
                    av = "%s{%s}" % (type(av).__name__, ", ".join(sorted(map(repr, av))))
                rows.append("%s %s %r %r %s %s" % (i.offset, i.opname, i.arg, av, i.is_jump_target, i.starts_line))
        except Exception as e:
            rows.append("EXC %s: %s" % (type(e).__name__, e))
        for k in c.co_consts:
            if hasattr(k, "co_code"):
                walk(k)
    walk(co)
    out[label + ":instructions"] = ADDR.sub("0x", "\n".join(rows))


def main():
    repo, = sys.argv[1:2]
    files = json.loads(sys.stdin.read())
    from xdis.load import load_module
    from xdis.disasm import disassemble_file
    from xdis.magics import magic2int
    import xdis.unmarshal
    res = {"host": "%d.%d" % sys.version_info[:2], "files": {}}
    for f in files:
        out = {}
        try:
            r = load_module(f)
            ver = tuple(r[0][:2])
            out["header"] = repr((tuple(r[0][:2]), r[1], r[2], r[4], r[5], r[6]))
            out["path"] = "native" if type(r[3]).__name__ == "code" else "portable"
            views(r[3], ver, r[4], "load", out)
            for fmt in ("classic", "extended", "xasm", "bytes"):
                s = io.StringIO()
                try:
                    disassemble_file(f, s, fmt)
                    out["listing:" + fmt] = strip_banner(ADDR.sub("0x", s.getvalue()))
                except Exception as e:
                    out["listing:" + fmt] = "EXC %s: %s" % (type(e).__name__, e)
            if out["path"] == "native":
                # the same bytes through xdis's own unmarshaller on this host
                data = open(f, "rb").read()
                hl = 16 if ver >= (3, 7) else (12 if ver >= (3, 3) else 8)
                co2 = xdis.unmarshal.load_code(io.BytesIO(data[hl:]), r[2])
                views(co2, ver, r[4], "portable-on-native-host", out)
        except Exception as e:
            out["error"] = "%s: %s" % (type(e).__name__, str(e)[:200])
        res["files"][f] = out
    sys.stdout.write(json.dumps(res))


main()
