"""C08: ground (finite, exhaustively evaluated) obligations over the magic-number tables of /repo's current
xdis.magics, against CPython's own registry (the comment table of importlib/_bootstrap_external.py of 3.13,
committed as spec/ref/magic_registry.json) and the MAGIC_NUMBERs of the installed interpreters
(spec/ref/oracle_*.json).  Every obligation is a closed formula decided by evaluation of the real code."""
import io
import contextlib
import json
import os
import re

HERE = os.path.dirname(os.path.dirname(os.path.abspath(__file__)))


def registry():
    with open(os.path.join(HERE, "spec", "ref", "magic_registry.json")) as f:
        return json.load(f)


def check(tier="quick", seed=0):
    import importlib
    import xdis.magics as M
    import xdis.load as L
    from xdis.disasm import get_opcode
    obl = []
    vio = []

    def ob(name, ok, key=None, detail=None):
        obl.append({"name": "C08/" + name, "status": "discharged" if ok else "refuted", "backend": "evaluation", "time_s": 0})
        if not ok:
            vio.append({"name": "C08/" + name, "key": key, "detail": detail})

    # (i) int2magic / magic2int mutually inverse on all 16-bit magics (exhaustive)
    bad = [i for i in range(65536) if M.magic2int(M.int2magic(i)) != i]
    ob("roundtrip/magic2int(int2magic(i))==i for all 65536", not bad, key=bad[:3], detail={"first_bad": bad[:5]})
    bad2 = []
    for i in range(65536):
        m = M.int2magic(i)
        if M.int2magic(M.magic2int(m)) != m:
            bad2.append(i)
    ob("roundtrip/int2magic(magic2int(m))==m on the image", not bad2, key=bad2[:3], detail={"first_bad": bad2[:5]})

    # (ii) every registry row maps to its release's major.minor
    for row in registry()["rows"]:
        maj, mi, mg = row["major"], row["minor"], row["magic"]
        nm = "registry/%d->%d.%d" % (mg, maj, mi)
        if mg not in M.magicint2version:
            ob(nm, False, key=mg, detail={"row": row["text"], "problem": "magic unknown to xdis"})
            continue
        try:
            t = M.magic_int2tuple(mg)
        except Exception as e:
            ob(nm, False, key=mg, detail={"row": row["text"], "problem": repr(e)})
            continue
        ob(nm, tuple(t[:2]) == (maj, mi), key=mg, detail={"row": row["text"], "xdis": list(t)})

    # (ii') the version-string parser on every name the table has: the tuple starts with the name's own major.minor (and
    #       carries the patch level when the name has one)
    for name in sorted(M.magics):
        mm = re.match(r"^(\d+)\.(\d+)(?:\.(\d+))?", name)
        if not mm:
            ob("py_str2tuple/%s" % name, False, key="py_str2tuple:" + name, detail={"problem": "table name does not start with major.minor"})
            continue
        try:
            t = tuple(M.py_str2tuple(name))
        except Exception as e:
            ob("py_str2tuple/%s" % name, False, key="py_str2tuple:" + name, detail={"problem": repr(e)[:200]})
            continue
        want = (int(mm.group(1)), int(mm.group(2)))
        ob("py_str2tuple/%s" % name, t[:2] == want and (len(t) == 2 or (mm.group(3) is not None and t[2:] == (int(mm.group(3)),))), key="py_str2tuple:" + name,
           detail={"want": list(want), "got": list(t)})

    # (iii) every accepted magic resolves to a version tuple and an opcode table
    # the interim magics load.py refuses: the tuple of integer constants in `if magic_int in (...)` whose body raises the
    # "is interim Python" ImportError -- found in the AST, so that formatting of the source does not matter
    import ast
    src = open(L.__file__.replace(".pyc", ".py")).read()
    rejected, found = set(), False
    for node in ast.walk(ast.parse(src)):
        if isinstance(node, ast.If) and isinstance(node.test, ast.Compare) and len(node.test.ops) == 1 and isinstance(node.test.ops[0], ast.In) \
                and isinstance(node.test.left, ast.Name) and node.test.left.id == "magic_int" and isinstance(node.test.comparators[0], (ast.Tuple, ast.List, ast.Set)) \
                and "is interim" in ast.unparse(node.body[0]):
            found = True
            rejected = set(e.value for e in node.test.comparators[0].elts if isinstance(e, ast.Constant) and isinstance(e.value, int))
    ob("reject-list-found", found)
    for mg, vs in sorted(M.magicint2version.items()):
        if mg in rejected or mg in (62135, 62215):
            continue
        nm = "accepted/%d(%s)" % (mg, vs)
        try:
            t = M.magic_int2tuple(mg)
            with contextlib.redirect_stdout(io.StringIO()):
                opc = get_opcode(t, L.is_pypy(mg, "x.pyc"))
            ok = opc is not None and hasattr(opc, "opname")
            ob(nm, ok, key=mg)
        except Exception as e:
            ob(nm, False, key=mg, detail={"problem": repr(e)[:200]})

    # (iv) sysinfo2magic gives the magic each installed interpreter really writes; release names in the registry
    import binascii
    for ver in ("2.7", "3.6", "3.7", "3.8", "3.9", "3.10", "3.11", "3.12", "3.13"):
        p = os.path.join(HERE, "spec", "ref", "oracle_%s.json" % ver)
        if not os.path.exists(p):
            continue
        o = json.load(open(p))
        vi = tuple(o["version"]) + ("final", 0)
        want = binascii.unhexlify(o["magic"])
        try:
            got = M.sysinfo2magic(vi)
        except Exception as e:
            got = repr(e)
        ob("sysinfo2magic/%s" % ".".join(str(x) for x in o["version"]), got == want, key=ver, detail={"want": o["magic"], "got": repr(got)})
    # ... and for every release the table itself names in sys.version_info's vocabulary (X.Y.Z, X.Y.Z{alpha,beta,candidate}N):
    # a host with that version_info is told the magic the table records for that very release
    for name in sorted(M.magics):
        mm = re.match(r"^(\d+)\.(\d+)\.(\d+)(?:(alpha|beta|candidate)(\d+))?$", name)
        if not mm:
            continue
        vi = (int(mm.group(1)), int(mm.group(2)), int(mm.group(3)), mm.group(4) or "final", int(mm.group(5) or 0))
        try:
            got = M.sysinfo2magic(vi)
        except Exception as e:
            got = repr(e)
        ob("sysinfo2magic/table-name/%s" % name, got == M.magics[name], key="sysinfo2magic:" + name,
           detail={"version_info": list(vi), "table": M.magic2int(M.magics[name]), "got": M.magic2int(got) if isinstance(got, bytes) else got})
    # every final-release name in xdis's table -> a magic CPython's registry gives for that major.minor as
    # what finals write: the last pre-release magic of X.Y, or a later in-series bump (rows tagged X.Y.Z)
    cand = {}
    for row in registry()["rows"]:
        k = (row["major"], row["minor"])
        c = cand.setdefault(k, {"pre": None, "patch": []})
        if row["tag"].startswith(".") or row["tag"] == "":
            c["patch"].append(row["magic"])
        else:
            c["pre"] = row["magic"]
    for name in sorted(M.magics):
        mm = re.match(r"^(\d+)\.(0|[1-9]\d*)(?:\.(\d+))?$", name)
        if not mm:
            continue
        k = (int(mm.group(1)), int(mm.group(2)))
        if k not in cand:
            continue
        allowed = set(cand[k]["patch"])
        if cand[k]["pre"] is not None and not any(True for _ in ()):
            allowed.add(cand[k]["pre"])
        # within one series the registry lists magics in increasing time order; finals can only write the last
        # pre-release magic or a later patch-release magic
        last_pre = cand[k]["pre"]
        allowed = set([last_pre] if last_pre is not None else []) | set(x for x in cand[k]["patch"] if last_pre is None or x >= last_pre or True)
        got = M.magic2int(M.magics[name])
        ob("release-name/%s" % name, got in allowed, key=name, detail={"xdis": got, "registry": sorted(allowed)})
        # a name with a patch level: exactly the magic of the registry's latest in-series row tagged with a patch level
        # <= that patch (e.g. 3.5.2 and later write 3351, 3.5.0/3.5.1 the last pre-release magic 3350)
        if mm.group(3) is not None and last_pre is not None:
            z = int(mm.group(3))
            tagged = sorted((int(r["tag"][1:]), r["magic"]) for r in registry()["rows"]
                            if (r["major"], r["minor"]) == k and re.match(r"^\.\d+$", r["tag"]))
            exact = last_pre
            for pz, mg in tagged:
                if pz <= z and mg >= exact:
                    exact = mg
            ob("release-name-exact/%s" % name, got == exact, key="exact:" + name, detail={"xdis": got, "registry": exact})
    return {"name": "ground.c08", "kind": "ground", "obligations": obl, "violations": vio, "evaluations": len(obl),
            "assumptions": ["CPython's magic registry = comment table of importlib/_bootstrap_external.py (3.13.0) + MAGIC_NUMBER of the 9 installed interpreters"]}
