"""Worker of ground/freeze_roundtrip.py (C19, bounded): runs with PYTHONPATH=<repo>.  Builds portable code objects whose
line table is an {offset: line} mapping, calls freeze(), decodes the result with xdis's line-start routine for that code
type and emits the encoded tables so that the matching CPython can decode them too.  Prints one JSON object."""
import itertools
import json
import random
import sys

CLASSES = [("2.7", (2, 7, 0), False), ("3.3", (3, 3, 0), False), ("3.7", (3, 7, 0), False), ("3.8", (3, 8, 0), True), ("3.9", (3, 9, 0), True), ("3.10", (3, 10, 0), True)]
OFF_EVEN = [2, 4, 254, 256, 258, 510, 512, 600, 1024]
OFF_ODD = [1, 3, 255, 257]
LINE_POS = [1, 2, 126, 127, 128, 129, 254, 255, 256, 257, 300, 511, 1000]
LINE_NEG = [-1, -2, -127, -128, -129, -255, -256, -300, -1000]


def mk(vt, table, n, first):
    from xdis.codetype import to_portable
    kw = dict(co_argcount=0, co_posonlyargcount=0, co_kwonlyargcount=0, co_nlocals=0, co_stacksize=1, co_flags=0,
              co_code=bytes(bytearray(n)), co_consts=(None,), co_names=(), co_varnames=(), co_filename="f.py", co_name="f", co_firstlineno=first,
              co_lnotab=dict(table), co_freevars=(), co_cellvars=(), version_triple=vt)
    return to_portable(**kw)


def tables(vt, signed, count, rng):
    offs = OFF_EVEN + ([] if vt >= (3, 6) else OFF_ODD)
    lines = LINE_POS + (LINE_NEG if signed else [])
    out = []
    steps = list(itertools.product(offs, lines))
    # one step after (0, first); first entry on / above the first line; table that starts after offset 0
    for (o, l) in steps:
        out.append([(0, 20000), (o, 20000 + l)])
        out.append([(0, 20007), (o, 20007 + l)])
    if vt >= (3, 10):
        # only the 3.10 format can say "no line" for the bytes before the first entry
        for (o, l) in steps[::7]:
            out.append([(6, 20000), (6 + o, 20000 + l)])
    pairs = list(itertools.product(steps, steps))
    rng.shuffle(pairs)
    for (a, b) in pairs[:count]:
        out.append([(0, 20000), (a[0], 20000 + a[1]), (a[0] + b[0], 20000 + a[1] + b[1])])
    for _ in range(count):
        t, off, line = [(0, 20000)], 0, 20000
        for _ in range(rng.randrange(2, 6)):
            off += rng.choice(offs)
            line += rng.choice(lines)
            t.append((off, line))
        out.append(t)
    return out


def main():
    count, seed = int(sys.argv[1]), int(sys.argv[2])
    from xdis.cross_dis import findlinestarts
    rng = random.Random(seed)
    res = {"cases": [], "evaluations": 0}
    for name, vt, signed in CLASSES:
        for table in tables(vt, signed, count, rng):
            res["evaluations"] += 1
            n = table[-1][0] + 10
            case = {"version": name, "table": table, "n": n, "first": 20000}
            try:
                c = mk(vt, table, n, 20000)
                c.freeze()
                enc = c.co_linetable if vt >= (3, 10) else c.co_lnotab
                if isinstance(enc, str):
                    enc = enc.encode("latin-1")
                case["encoded"] = list(bytearray(enc))
                case["xdis"] = [list(x) for x in findlinestarts(c, version_tuple=vt)]
            except Exception as e:
                case["error"] = "%s: %s" % (type(e).__name__, e)
            res["cases"].append(case)
    sys.stdout.write(json.dumps(res))


main()
