"""Bounded check attached to C03: local / cell / free variable operands against the host's dis on 3.11-3.13 programs whose
localsplus table has every shape (plain, cell that is also a local, free variable sharing a local's name).  The deductive
decoder contract proves resolution against xdis's reconstruction of the table from (varnames, cellvars + freevars), which
cannot represent the last shape; this check compares with CPython itself.  Labelled bounded."""
import json
import os
import subprocess

HERE = os.path.dirname(os.path.dirname(os.path.abspath(__file__)))


def check(tier="quick", seed=0):
    repo = os.environ.get("XDIS_REPO", "/repo")
    vio, n, hosts = [], 0, []
    seen = set()
    for h in ("3.11.7", "3.12.1", "3.13.0"):
        exe = "/root/.pyenv/versions/%s/bin/python" % h
        if not os.path.exists(exe):
            continue
        env = dict(os.environ, PYTHONPATH=repo, PYTHONDONTWRITEBYTECODE="1")
        p = subprocess.run([exe, os.path.join(HERE, "ground", "localsplus_worker.py")], capture_output=True, text=True, env=env, timeout=300)
        try:
            d = json.loads(p.stdout)
        except Exception:
            from ground.common import worker_failed
            return worker_failed("ground.localsplus", h, p.stderr, repo)
        hosts.append(h)
        n += d["evaluations"]
        for x in d["diffs"]:
            shares = x["dis"][2] in x["varnames"] and x["dis"][2] in x["freevars"]
            key = "localsplus-free-name-equals-local" if shares else "localsplus:%s:%s:%s" % (d["host"], x["code"], x["dis"][1])
            if key in seen:
                continue
            seen.add(key)
            vio.append({"name": "C03/bounded/localsplus", "key": key, "input": "host %s, code object %s of ground/localsplus_worker.SRC (%s path)" % (d["host"], x["code"], x["path"]),
                        "detail": "dis %s, xdis %s; co_varnames %s co_cellvars %s co_freevars %s" % (x["dis"], x["xdis"], x["varnames"], x["cellvars"], x["freevars"])})
    return {"name": "ground.localsplus", "kind": "bounded", "bound": "4 programs (closures, class body, inlined comprehensions, nonlocal) x hosts %s x {native, portable} code objects" % ",".join(hosts),
            "evaluations": n, "violations": vio, "obligations": [], "samples": [{"program": "ground/localsplus_worker.SRC"}],
            "assumptions": ["bounded: the shapes of co_localsplusnames are exercised by four hand-written programs"]}
