"""Bounded check for C16: native -> portable -> native round trip under each installed host 3.8-3.13 (see native_worker.py).
The deductive part of C16 proves the plumbing over abstract field tokens per host; this runs it on real code objects."""
import json
import os
import subprocess

HERE = os.path.dirname(os.path.dirname(os.path.abspath(__file__)))
HOSTS = ["3.8.18", "3.9.18", "3.10.13", "3.11.7", "3.12.1", "3.13.0"]


def check(tier="quick", seed=0):
    repo = os.environ.get("XDIS_REPO", "/repo")
    vio, n, hosts, seen = [], 0, [], set()
    for h in HOSTS:
        exe = "/root/.pyenv/versions/%s/bin/python" % h
        if not os.path.exists(exe):
            continue
        env = dict(os.environ, PYTHONPATH=repo, PYTHONDONTWRITEBYTECODE="1", PYTHONWARNINGS="ignore")
        p = subprocess.run([exe, os.path.join(HERE, "ground", "native_worker.py")], capture_output=True, text=True, env=env, timeout=600)
        try:
            d = json.loads(p.stdout)
        except Exception:
            from ground.common import worker_failed
            return worker_failed("ground.native_roundtrip", h, p.stderr, repo)
        hosts.append(d["host"])
        n += d["evaluations"]
        for x in d["diffs"]:
            key = "native:%s:%s" % (d["host"], x["what"])
            if key in seen:
                continue
            seen.add(key)
            vio.append({"name": "C16/bounded/native-roundtrip", "key": key, "input": "host %s, code object %s of ground/std_worker.SRC" % (d["host"], x["code"]), "detail": "%s: %s" % (x["what"], x["detail"])})
    return {"name": "ground.native_roundtrip", "kind": "bounded", "bound": "every code object of one program (closures, generators, coroutines, try/with, classes, comprehensions) x hosts %s" % ",".join(hosts),
            "evaluations": n, "violations": vio, "obligations": [], "samples": [{"program": "ground/std_worker.SRC"}],
            "assumptions": ["bounded: one program per host; co_lnotab (deprecated alias) is not compared"]}
