# -*- coding: utf-8 -*-
"""Worker of ground/consts_diff.py (C01, bounded).  Runs under each installed interpreter (2.7, 3.6-3.13; no xdis needed):
compiles a program whose constants have every kind that interpreter can marshal from source text, and prints the marshal
bytes of the module code object together with a *typed* dump of its constant tree (kind + exact value, not repr)."""
import binascii
import json
import marshal
import struct
import sys
import types

PY2 = sys.version_info[0] == 2

SRC2 = u'''# -*- coding: utf-8 -*-
def f(q):
    a = 'plain'
    b = 'caf\\xc3\\xa9'
    c = '\\xff\\xfe\\x00'
    d = u'uni'
    e = u'caf\\xe9 \\u4e2d\\u6587 \\U0001f600'
    g = 1152921504606846976
    h = -5
    i = 2147483648
    j = 1.5
    k = -0.0
    l = 3j
    m = (1, 'x', u'y', (2.5, None), -7, 9L)
    n = 123456789012345678901234567890L
    o = 7L
    p = -98765432109876543210L
    r = 1e999
    s = 0.1
    t = ''
    u = u''
    v = 32767
    w = 32768L
    x = 1073741824L
    y = -2147483648
    z = q in ('k1', u'k2', 3)
    return Ellipsis, lambda: ('inner', u'inner-u', 99L)
class K(object):
    """doc string"""
    attr = u'\\xe9'
'''

SRC3 = u'''
def f(q):
    a = 'plain'
    b = 'caf\\xe9 \\u4e2d\\u6587 \\U0001f600'
    c = b'\\xff\\xfe\\x00'
    d = '\\ud800 lone surrogate \\udfff'
    e = b''
    g = 1152921504606846976
    h = -5
    i = 2147483648
    j = 1.5
    k = -0.0
    l = 3j
    m = (1, 'x', b'y', (2.5, None), -7, True, ...)
    n = 123456789012345678901234567890
    o = 2 ** 15
    p = -98765432109876543210
    r = 1e999
    s = 0.1
    t = ''
    u = (1e999 - 1e999,)
    v = 32767
    w = 32768
    x = 1073741824
    y = -2147483648
    z = q in {'k1', b'k2', 3, 2.5, None}
    zz = 'x' * 3, 'same', 'same', b'same'
    return ..., lambda: ('inner', b'inner-b', 2 ** 70), (-1.5e-300j + 2)
class K(object):
    """doc string \\xe9"""
    attr = '\\xe9'
'''


def hx(b):
    return binascii.hexlify(b).decode("ascii")


def typed(c):
    if c is None:
        return ["None"]
    if c is True or c is False:
        return ["bool", bool(c)]
    if c is Ellipsis:
        return ["Ellipsis"]
    if isinstance(c, types.CodeType):
        return ["code", c.co_name, [typed(x) for x in c.co_consts]]
    if PY2:
        if isinstance(c, long):       # noqa: F821
            return ["long", str(c)[:-1] if str(c).endswith("L") else str(c)]
        if isinstance(c, int):
            return ["int", str(c)]
        if isinstance(c, unicode):    # noqa: F821
            return ["unicode", hx(c.encode("utf-8"))]
        if isinstance(c, str):
            return ["str2", hx(c)]
    else:
        if isinstance(c, int):
            return ["int", str(c)]
        if isinstance(c, str):
            return ["unicode", hx(c.encode("utf-8", "surrogatepass"))]
        if isinstance(c, bytes):
            return ["bytes", hx(c)]
    if isinstance(c, float):
        return ["float", hx(struct.pack("<d", c))]
    if isinstance(c, complex):
        return ["complex", hx(struct.pack("<d", c.real)), hx(struct.pack("<d", c.imag))]
    if isinstance(c, tuple):
        return ["tuple", [typed(x) for x in c]]
    if isinstance(c, frozenset):
        return ["frozenset", sorted((typed(x) for x in c), key=lambda t: json.dumps(t))]
    return ["?", repr(c)]


def main():
    src = SRC2 if PY2 else SRC3
    co = compile(src.encode("utf-8") if PY2 else src, "consts_src.py", "exec")
    if PY2:
        import imp
        magic = imp.get_magic()
    else:
        import importlib.util
        magic = importlib.util.MAGIC_NUMBER
    sys.stdout.write(json.dumps({"version": list(sys.version_info[:3]), "magic": hx(magic), "marshal": hx(marshal.dumps(co)), "typed": typed(co)}))


if __name__ == "__main__":
    main()
