"""Frame obligations (static) for C11, C12 and C18 built on ground/frames.py: one obligation per function reachable from
the property's entry points and per effect class the property forbids: "no such primitive in the body"."""
import os
import time
from ground import frames


def _run(prop, roots, classes, what, allow=(), tier="quick"):
    repo = os.environ.get("XDIS_REPO", "/repo")
    t0 = time.time()
    try:
        res = frames.analyse(repo, roots, classes, allow)
    except KeyError as e:
        return {"name": "ground.effects.%s" % prop, "error": "entry point missing: %s" % e, "obligations": [], "violations": []}
    bad = {}
    for f in res["findings"]:
        bad.setdefault(f["function"], []).append(f)
    obs, vio = [], []
    dt = time.time() - t0
    for k in res["functions"]:
        name = "%s/frame/%s/%s" % (prop, "+".join(sorted(classes)), k)
        if k in bad:
            obs.append({"name": name, "status": "refuted", "backend": "static frame analysis", "time_s": 0.0, "detail": "; ".join("%s at %s:%d" % (x["what"], x["file"], x["line"]) for x in bad[k])})
            for x in bad[k]:
                vio.append({"name": name, "key": "%s:%s:%s" % (x["class"], k, x["what"]), "confirmed": False,
                            "detail": "%s: %s reaches %s, which %s (%s line %d); call chain: %s" % (prop, roots[0], k, what, x["file"], x["line"], " -> ".join(x["reached_via"][-6:])),
                            "verifier_output": x})
        else:
            obs.append({"name": name, "status": "discharged", "backend": "static frame analysis", "time_s": dt / max(1, len(res["functions"]))})
    return {"name": "ground.effects.%s" % prop, "obligations": obs, "violations": vio, "evaluations": len(obs), "assumptions": list(frames.ASSUMPTIONS)}


def check_c11(tier="quick", seed=0):
    return _run("C11", ["xdis.load:load_module", "xdis.load:load_module_from_file_object"], {"exec", "fs-write"},
                "executes / imports / compiles code or writes to the file system", tier=tier)


def check_c12(tier="quick", seed=0):
    return _run("C12", ["xdis.disasm:disassemble_file", "xdis.bin.pydisasm:main"], {"stdout"}, "writes to standard output outside the listing stream", tier=tier)


C18_ROOTS = ["xdis.load:load_module", "xdis.load:load_module_from_file_object", "xdis.disasm:disassemble_file", "xdis.disasm:get_opcode", "xdis.op_imports:get_opcode_module",
             "xdis.std:make_std_api", "xdis.marsh:dumps", "xdis.marsh:loads", "xdis.marsh:dump", "xdis.marsh:load", "xdis.unmarshal:load_code",
             "xdis.bytecode:Bytecode.__init__", "xdis.bytecode:Bytecode.dis", "xdis.bytecode:get_instructions_bytes", "xdis.cross_dis:findlabels", "xdis.cross_dis:findlinestarts"]


def _remap_exception(f, cls, desc):
    """the documented exception of C18: explicit opcode remapping patches the version's table in place"""
    return f.module == "xdis.op_imports" and f.name in ("remap_opcodes",)


def check_c18(tier="quick", seed=0):
    return _run("C18", C18_ROOTS, {"global-write"}, "writes process-wide state (module-level or class-level table, mutable default, memo)", allow=(_remap_exception,), tier=tier)


def check_frames(prop="C04", roots=(), tier="quick", seed=0):
    """the same frame condition for the entry points of another property (its functions keep no state between calls)"""
    return _run(prop, list(roots), {"global-write"}, "writes process-wide state (module-level or class-level table, mutable default, memo)", allow=(_remap_exception,), tier=tier)
