"""Frame obligations (static) for C11, C12 and C18 built on ground/frames.py: one obligation per function reachable from
the property's entry points and per effect class the property forbids: "no such primitive in the body"."""
import os
import time
from ground import frames


def _run(prop, roots, classes, what, allow=(), tier="quick"):
    repo = os.environ.get("XDIS_REPO", "/repo")
    t0 = time.time()
    try:
        res = frames.analyse(repo, roots, classes, allow)
    except KeyError as e:
        return {"name": "ground.effects.%s" % prop, "error": "entry point missing: %s" % e, "obligations": [], "violations": []}
    bad = {}
    for f in res["findings"]:
        bad.setdefault(f["function"], []).append(f)
    obs, vio = [], []
    dt = time.time() - t0
    for k in res["functions"]:
        name = "%s/frame/%s/%s" % (prop, "+".join(sorted(classes)), k)
        if k in bad:
            obs.append({"name": name, "status": "refuted", "backend": "static frame analysis", "time_s": 0.0, "detail": "; ".join("%s at %s:%d" % (x["what"], x["file"], x["line"]) for x in bad[k])})
            for x in bad[k]:
                vio.append({"name": name, "key": "%s:%s:%s" % (x["class"], k, x["what"]), "confirmed": False,
                            "detail": "%s: %s reaches %s, which %s (%s line %d); call chain: %s" % (prop, roots[0], k, what, x["file"], x["line"], " -> ".join(x["reached_via"][-6:])),
                            "verifier_output": x})
        else:
            obs.append({"name": name, "status": "discharged", "backend": "static frame analysis", "time_s": dt / max(1, len(res["functions"]))})
    return {"name": "ground.effects.%s" % prop, "obligations": obs, "violations": vio, "evaluations": len(obs), "assumptions": list(frames.ASSUMPTIONS)}


def check_c11(tier="quick", seed=0):
    return _run("C11", ["xdis.load:load_module", "xdis.load:load_module_from_file_object"], {"exec", "fs-write"},
                "executes / imports / compiles code or writes to the file system", tier=tier)


def check_c12(tier="quick", seed=0):
    return _run("C12", ["xdis.disasm:disassemble_file", "xdis.bin.pydisasm:main"], {"stdout"}, "writes to standard output outside the listing stream", tier=tier)
