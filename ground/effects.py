"""Frame obligations (static) for C11, C12 and C18 built on ground/frames.py: one obligation per function reachable from
the property's entry points and per effect class the property forbids: "no such primitive in the body"."""
import os
import time
from ground import frames


def _run(prop, roots, classes, what, allow=(), tier="quick"):
    repo = os.environ.get("XDIS_REPO", "/repo")
    t0 = time.time()
    try:
        res = frames.analyse(repo, roots, classes, allow)
    except KeyError as e:
        return {"name": "ground.effects.%s" % prop, "error": "entry point missing: %s" % e, "obligations": [], "violations": []}
    bad = {}
    for f in res["findings"]:
        bad.setdefault(f["function"], []).append(f)
    obs, vio = [], []
    dt = time.time() - t0
    for k in res["functions"]:
        name = "%s/frame/%s/%s" % (prop, "+".join(sorted(classes)), k)
        if k in bad:
            obs.append({"name": name, "status": "refuted", "backend": "static frame analysis", "time_s": 0.0, "detail": "; ".join("%s at %s:%d" % (x["what"], x["file"], x["line"]) for x in bad[k])})
            for x in bad[k]:
                vio.append({"name": name, "key": "%s:%s:%s" % (x["class"], k, x["what"]), "confirmed": False,
                            "detail": "%s: %s reaches %s, which %s (%s line %d); call chain: %s" % (prop, roots[0], k, what, x["file"], x["line"], " -> ".join(x["reached_via"][-6:])),
                            "verifier_output": x})
        else:
            obs.append({"name": name, "status": "discharged", "backend": "static frame analysis", "time_s": dt / max(1, len(res["functions"]))})
    return {"name": "ground.effects.%s" % prop, "obligations": obs, "violations": vio, "evaluations": len(obs), "assumptions": list(frames.ASSUMPTIONS)}


def check_c11(tier="quick", seed=0):
    return _run("C11", ["xdis.load:load_module", "xdis.load:load_module_from_file_object"], {"exec", "fs-write"},
                "executes / imports / compiles code or writes to the file system", tier=tier)


def check_c12(tier="quick", seed=0):
    return _run("C12", ["xdis.disasm:disassemble_file", "xdis.bin.pydisasm:main"], {"stdout"}, "writes to standard output outside the listing stream", tier=tier)


C18_ROOTS = ["xdis.load:load_module", "xdis.load:load_module_from_file_object", "xdis.disasm:disassemble_file", "xdis.disasm:get_opcode", "xdis.op_imports:get_opcode_module",
             "xdis.std:make_std_api", "xdis.marsh:dumps", "xdis.marsh:loads", "xdis.marsh:dump", "xdis.marsh:load", "xdis.unmarshal:load_code",
             "xdis.bytecode:Bytecode.__init__", "xdis.bytecode:Bytecode.dis", "xdis.bytecode:get_instructions_bytes", "xdis.cross_dis:findlabels", "xdis.cross_dis:findlinestarts"]


def _remap_exception(f, cls, desc):
    """the documented exception of C18: explicit opcode remapping patches the version's table in place"""
    return f.module == "xdis.op_imports" and f.name in ("remap_opcodes",)


def check_c18(tier="quick", seed=0):
    return _run("C18", C18_ROOTS, {"global-write"}, "writes process-wide state (module-level or class-level table, mutable default, memo)", allow=(_remap_exception,), tier=tier)


def check_frames(prop="C04", roots=(), tier="quick", seed=0):
    """the same frame condition for the entry points of another property (its functions keep no state between calls)"""
    return _run(prop, list(roots), {"global-write"}, "writes process-wide state (module-level or class-level table, mutable default, memo)", allow=(_remap_exception,), tier=tier)


# ---------------------------------------------------------------------------------------------- C07: host switches
C07_ROOTS = ["xdis.load:load_module", "xdis.load:load_module_from_file_object", "xdis.disasm:disassemble_file", "xdis.unmarshal:load_code", "xdis.bytecode:Bytecode.__init__",
             "xdis.bytecode:Bytecode.dis", "xdis.bytecode:get_instructions_bytes", "xdis.cross_dis:findlabels", "xdis.cross_dis:findlinestarts", "xdis.codetype:codeType2Portable"]

# expressions whose value legitimately differs between hosts, with the contract that shows both sides agree
C07_ALLOWED = [
    ("xdis.load:load_module_from_file_object", "PYTHON_MAGIC_INT", "the fast-path switch (file version == host version): both loader paths give the same fields by C01/C10 (portable reader = format) + C16 (native -> portable is field-exact per host); compared on real files by the bounded host differential"),
    ("xdis.codetype:codeType2Portable", "PYTHON_VERSION_TRIPLE", "default argument: picks the portable class of the host's own code type; C16 proves the conversion per host 3.8-3.13"),
    ("xdis.codetype:portableCodeType", "PYTHON_VERSION_TRIPLE", "default argument, same as codeType2Portable"),
    ("xdis.codetype:to_portable", "PYTHON_VERSION_TRIPLE", "default argument version_triple: callers in the decode paths pass the file's version"),
    ("xdis.disasm:disco", "PYTHON_VERSION_TRIPLE", "asm_format == 'dis' only: delegates to the host's dis and asserts the versions agree (not one of the six formats of C12)"),
    ("xdis.disasm:disco_loop", "PYTHON_VERSION_TRIPLE", "asm_format == 'dis' only (see disco)"),
    ("xdis.disasm:disassemble_file", "PYTHON_VERSION_TRIPLE", "source-file fallback: a .py argument is compiled by the host, so its bytecode is the host's by definition"),
    ("xdis.disasm:disassemble_file", "PYTHON_MAGIC_INT", "source-file fallback (see above)"),
    ("xdis.disasm:disassemble_file", "IS_PYPY", "source-file fallback (see above)"),
    ("xdis.disasm:show_module_header", "HOST", "the banner line that names the host (excluded by the property)"),
    ("xdis.marsh:_Marshaller.dump", "PYTHON_VERSION_TRIPLE", "writer side (reached only through the name-based call graph): refuses a native code object of another version than the host's; not on a decode path"),
    ("xdis.version_info:version_tuple_to_str", "PYTHON_VERSION_TRIPLE", "default argument used for the banner and for error messages that name the host"),
]


def check_c07(tier="quick", seed=0):
    """one obligation per expression that reads a host constant inside a function reachable from the decoding entry points:
    after substituting the constants of each installed host 3.8-3.13 the residual expression is the same (the code cannot
    behave differently on another host), or the expression is a listed switch whose two sides are proved equal elsewhere"""
    repo = os.environ.get("XDIS_REPO", "/repo")
    pkg = frames.Package(repo)
    try:
        order, via = pkg.reachable(C07_ROOTS)
    except KeyError as e:
        return {"name": "ground.effects.C07", "error": "entry point missing: %s" % e, "obligations": [], "violations": []}
    obs, vio = [], []
    for f in order:
        for ln, text, res in frames.host_reads(pkg, f):
            name = "C07/host-switch/%s@L%d" % (f.key, ln)
            vals = set(res.values())
            if len(vals) == 1:
                obs.append({"name": name, "status": "discharged", "backend": "partial evaluation over hosts 3.8-3.13", "time_s": 0.0, "detail": "%s  =>  %s" % (text, list(vals)[0][1])})
                continue
            allowed = next((a for a in C07_ALLOWED if a[0] == f.key and (a[1] in text or a[1] == "HOST")), None)
            if allowed is not None:
                obs.append({"name": name, "status": "discharged", "backend": "listed host switch (assumed: %s)" % allowed[2][:80], "time_s": 0.0, "detail": text})
                continue
            obs.append({"name": name, "status": "refuted", "backend": "partial evaluation over hosts 3.8-3.13", "time_s": 0.0, "detail": text})
            vio.append({"name": name, "key": "host-switch:%s:%s" % (f.key, text[:60]), "confirmed": False,
                        "detail": "%s (%s line %d) evaluates differently on different hosts: %s; reached via %s" % (text, f.key, ln, dict((h, r[1]) for h, r in sorted(res.items())), " -> ".join([k for k in [via.get(f.key)] if k]))})
    return {"name": "ground.effects.C07", "obligations": obs, "violations": vio, "evaluations": len(obs),
            "assumptions": list(frames.ASSUMPTIONS) + ["host switches listed in ground/effects.py C07_ALLOWED are assumed equal on both sides by the contracts named there (C01/C10/C16) and checked on real files by the bounded differential"]}
