"""Bounded check attached to C05: xdis.lineoffsets (LineOffsetInfo, lineoffsets_in_file), the line -> offsets view built on
findlinestarts and Instruction.starts_line, re-derived independently from those two (whose own correctness is the deductive
part of C05) on corpus files of every version and on programs compiled by the installed interpreters.  Labelled bounded."""
import binascii
import glob
import json
import multiprocessing as mp
import os
import shutil
import struct
import sys
import tempfile

HERE = os.path.dirname(os.path.dirname(os.path.abspath(__file__)))


def _init(repo):
    sys.path.insert(0, repo)


def _expect(opc, code):
    from xdis.bytecode import get_instructions_bytes
    linestarts = dict(opc.findlinestarts(code, dup_lines=True))
    offsets, groups = [], []
    for i in get_instructions_bytes(bytecode=code.co_code, opc=opc, varnames=code.co_varnames, names=code.co_names, constants=code.co_consts,
                                    cells=code.co_cellvars + code.co_freevars, linestarts=linestarts):
        offsets.append(i.offset)
        if i.starts_line:
            groups.append((i.starts_line, [i.offset]))
        elif groups:
            groups[-1][1].append(i.offset)
    return linestarts, offsets, groups


def _compare(info, opc, code, path, problems, depth=0):
    from xdis.codetype.base import iscode
    n = 0
    linestarts, offsets, groups = _expect(opc, code)
    where = "%s <%s>" % (os.path.basename(path), code.co_name)
    n += 1
    if info.linestarts != linestarts:
        problems.append(("linestarts", "%s: LineOffsetInfo.linestarts %r != findlinestarts %r" % (where, sorted(info.linestarts.items())[:6], sorted(linestarts.items())[:6])))
    n += 1
    if list(info.offsets) != offsets:
        problems.append(("offsets", "%s: LineOffsetInfo.offsets %r != instruction offsets %r" % (where, list(info.offsets)[:8], offsets[:8])))
    own = [(x.line_number, list(x.offsets)) for x in info.lines[:len(groups)] if x is not None]
    n += 1
    if own != groups:
        bad = next((k for k, (a, b) in enumerate(zip(own, groups)) if a != b), min(len(own), len(groups)))
        problems.append(("line-groups", "%s: line group %d is %r, the instruction stream gives %r (%d vs %d groups)" % (where, bad, own[bad:bad + 1], groups[bad:bad + 1], len(own), len(groups))))
    n += 3
    if None not in linestarts.values():
        # (3.13 tables map some offsets to None, "no line", as CPython's findlinestarts does; line_numbers() sorts the values
        # and raises TypeError on them: a defect of this utility outside C05's statement, not exercised here)
        if info.line_numbers() != sorted(linestarts.values()):
            problems.append(("line_numbers", "%s: line_numbers() %r != sorted line starts %r" % (where, info.line_numbers()[:8], sorted(linestarts.values())[:8])))
        if info.line_numbers(include_dups=False) != sorted(set(linestarts.values())):
            problems.append(("line_numbers", "%s: line_numbers(include_dups=False) %r" % (where, info.line_numbers(include_dups=False)[:8])))
    if all(x is not None for x in info.lines):
        # (a code object without any line start leaves a None in .lines, on which include_offsets=True raises AttributeError:
        # a defect of this utility outside C05's statement, not exercised here)
        with_off = info.line_numbers(include_offsets=True)
        exp = {}
        for x in info.lines:
            exp.setdefault(x.line_number, []).append((x.code.co_name, list(x.offsets)))
        got = dict((k, [(c.name, list(c.offsets)) for c in v]) for k, v in with_off.items()) if isinstance(with_off, dict) else with_off
        if got != exp:
            problems.append(("line_numbers", "%s: line_numbers(include_offsets=True) does not group LineOffsetInfo.lines by line (%d vs %d lines)" % (where, len(got), len(exp))))
    kids = [c for c in code.co_consts if iscode(c)]
    n += 1
    if set(info.children) != set(c.co_name for c in kids):
        problems.append(("children", "%s: children %r != nested code objects %r" % (where, sorted(info.children)[:6], sorted(c.co_name for c in kids)[:6])))
    last = {}
    for c in kids:
        last[c.co_name] = c           # children are keyed by name: the last one of a name is the one kept
    for name, c in last.items():
        if name in info.children and depth < 6:
            n += _compare(info.children[name], opc, c, path, problems, depth + 1)
    return n


def _one(path):
    res = {"file": path, "evaluations": 0, "problems": []}
    try:
        from xdis.lineoffsets import lineoffsets_in_file
        from xdis.load import load_module
        from xdis.op_imports import get_opcode_module
        r = load_module(path)
        opc = get_opcode_module(r[0], "pypy" if r[4] else None)
        if not hasattr(r[3], "co_cellvars"):
            # 1.x - 2.0 code objects have no cell variables and LineOffsetInfo reads co_cellvars unconditionally (AttributeError):
            # outside what C05 states (it is about the (offset, line) pairs, which C05's other checks cover for these versions)
            res["skipped"] = "pre-2.1 code object: LineOffsetInfo needs co_cellvars"
            return res
        info = lineoffsets_in_file(path)
        res["evaluations"] += _compare(info, opc, r[3], path, res["problems"])
        top = lineoffsets_in_file(path, toplevel_only=True)
        res["evaluations"] += 1
        if top.children:
            res["problems"].append(("children", "%s: toplevel_only=True still has children" % os.path.basename(path)))
    except Exception as e:
        import traceback
        tb = traceback.extract_tb(e.__traceback__)
        if any("lineoffsets.py" in f.filename and "ground" not in f.filename for f in tb):
            res["evaluations"] += 1
            res["problems"].append(("raises", "%s: %s: %s" % (os.path.basename(path), type(e).__name__, str(e)[:120])))
        else:
            res["skipped"] = "%s: %s" % (type(e).__name__, str(e)[:80])
    return res


def _reasons(results):
    out = {}
    for r in results:
        if r.get("skipped"):
            out[r["skipped"][:60]] = out.get(r["skipped"][:60], 0) + 1
    return out


def oracle_pycs(tmp, tier):
    out = []
    for ver in ("2.7", "3.6", "3.7", "3.8", "3.9", "3.10", "3.11", "3.12", "3.13"):
        p = os.path.join(HERE, "spec", "ref", "oracle_%s.json" % ver)
        if not os.path.exists(p):
            continue
        o = json.load(open(p))
        vt = tuple(int(x) for x in ver.split("."))
        progs = sorted(o["programs"])
        if tier == "quick":
            progs = [q for q in progs if q in ("async", "exc", "loops", "match", "gen")]
        for prog in progs:
            raw = binascii.unhexlify(o["programs"][prog][0]["marshal"])
            hdr = binascii.unhexlify(o["magic"]) + (b"\0" * 4 if vt >= (3, 7) else b"") + struct.pack("<I", 1) + (struct.pack("<I", 1) if vt >= (3, 3) else b"")
            d = os.path.join(tmp, "bytecode_%s" % ver)
            os.makedirs(d, exist_ok=True)
            f = os.path.join(d, "oracle_%s.pyc" % prog)
            with open(f, "wb") as fh:
                fh.write(hdr + raw)
            out.append(f)
    return out


def check(tier="quick", seed=0):
    repo = os.environ.get("XDIS_REPO", "/repo")
    files = sorted(glob.glob(os.path.join(repo, "test", "bytecode_*", "*.py[co]")))
    by_dir = {}
    for f in files:
        by_dir.setdefault(os.path.dirname(f), []).append(f)
    chosen = []
    for d, fs in sorted(by_dir.items()):
        fs = sorted(fs, key=lambda p: (-min(os.path.getsize(p), 4000), p))
        chosen += fs[:2] if tier == "quick" else fs
    tmp = tempfile.mkdtemp(prefix="xdis-verif-c05-")
    vio, n, seen, skipped = [], 0, set(), 0
    try:
        extra = oracle_pycs(tmp, tier)
        with mp.get_context("fork").Pool(min(16, os.cpu_count() or 4), initializer=_init, initargs=(repo,)) as pool:
            for r in pool.imap_unordered(_one, chosen + extra, chunksize=2):
                n += r["evaluations"]
                skipped += 1 if r.get("skipped") else 0
                rel = os.path.relpath(r["file"], repo) if r["file"].startswith(repo) else os.path.join("oracle", os.path.relpath(r["file"], tmp))
                for kind, detail in r["problems"]:
                    key = "lineoffsets:%s" % kind if kind != "raises" else "lineoffsets:raises:%s" % detail.split(": ", 1)[-1][:60]
                    if key in seen:
                        continue
                    seen.add(key)
                    vio.append({"name": "C05/bounded/lineoffsets", "key": key, "input": rel, "detail": "%s: %s" % (rel, detail)})
    finally:
        shutil.rmtree(tmp, ignore_errors=True)
    if n == 0 and not vio:
        return {"name": "ground.lineoffsets", "error": "nothing was evaluated (%d files skipped)" % skipped, "obligations": [], "violations": []}
    return {"name": "ground.lineoffsets", "kind": "bounded",
            "bound": "%d corpus files (%s) + %d programs compiled by the installed interpreters: LineOffsetInfo of every code object vs findlinestarts + the instruction stream (%d files skipped: pre-2.1 code objects, which LineOffsetInfo does not accept, or not loadable)" % (len(chosen), "2 per version directory" if tier == "quick" else "all", len(extra), skipped),
            "evaluations": n, "violations": vio, "obligations": [], "samples": [{"file": os.path.relpath(f, repo)} for f in chosen[:3]],
            "assumptions": ["bounded: xdis.lineoffsets is compared with findlinestarts and starts_line on the corpus only"]}
