"""Worker of ground/localsplus.py: runs under a 3.11+ interpreter with PYTHONPATH=<repo>; compares xdis's argval for every
local / cell / free variable instruction with the host's dis, on programs whose 3.11+ localsplus table has the shapes the
deductive contract abstracts (a cell that is also a local; a free variable that shares a local's name, which PEP 709's inlined
comprehensions produce from 3.12)."""
import dis
import io
import json
import marshal
import sys

SRC = '''
def outer():
    x = 1
    def inner():
        y = [x for x in range(3)]
        return x, y
    return inner
class K:
    z = 5
    w = [z for z in range(2)]
def g(a, b=2):
    c = [a for a in range(2)]
    return lambda: (a, b, c)
def h(p):
    def q():
        nonlocal p
        p = [p for p in (1, 2)]
        return p
    return q
'''


def walk(c):
    yield c
    for k in c.co_consts:
        if hasattr(k, "co_code"):
            for x in walk(k):
                yield x


def main():
    from xdis.bytecode import Bytecode
    from xdis.op_imports import get_opcode_module
    from xdis.unmarshal import load_code
    from xdis.magics import PYTHON_MAGIC_INT
    opc = get_opcode_module(sys.version_info[:2])
    co = compile(SRC, "lp.py", "exec")
    port = load_code(io.BytesIO(marshal.dumps(co)), PYTHON_MAGIC_INT)
    out = {"host": "%d.%d" % sys.version_info[:2], "evaluations": 0, "diffs": []}
    for c, pc in zip(walk(co), walk(port)):
        ref = [(i.offset, i.opname, i.argval) for i in dis.get_instructions(c) if i.opname != "CACHE"]
        for label, obj in (("native", c), ("portable", pc)):
            got = [(i.offset, i.opname, i.argval) for i in Bytecode(obj, opc) if i.opname != "CACHE"]
            for r, g in zip(ref, got):
                if hasattr(r[2], "co_code"):
                    continue
                out["evaluations"] += 1
                if r != g and ("FAST" in r[1] or "DEREF" in r[1] or "CLOSURE" in r[1] or "CELL" in r[1]):
                    out["diffs"].append({"code": c.co_name, "path": label, "dis": list(map(str, r)), "xdis": list(map(str, g)),
                                         "varnames": list(c.co_varnames), "cellvars": list(c.co_cellvars), "freevars": list(c.co_freevars)})
    sys.stdout.write(json.dumps(out))


main()
