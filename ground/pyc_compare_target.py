# Runs under the *target* interpreter (2.7, 3.6 ... 3.13; py2-compatible syntax): unmarshal the original and the
# rewritten file and compare the two code objects field by field and constant by constant (kinds included).
import json
import marshal
import struct
import sys

NAMES = ("co_argcount", "co_posonlyargcount", "co_kwonlyargcount", "co_nlocals", "co_stacksize", "co_flags", "co_code", "co_names", "co_varnames",
         "co_freevars", "co_cellvars", "co_filename", "co_name", "co_qualname", "co_firstlineno", "co_lnotab", "co_linetable", "co_exceptiontable")


def diffs(a, b, path="co", out=None):
    if out is None:
        out = []
    if len(out) >= 40:
        return out
    if hasattr(a, "co_code"):
        if not hasattr(b, "co_code"):
            out.append("%s: code vs %s" % (path, type(b).__name__))
            return out
        for f in NAMES:
            if f == "co_lnotab" and sys.version_info >= (3, 10):
                continue
            if hasattr(a, f):
                diffs(getattr(a, f), getattr(b, f), "%s.%s" % (path, f), out)
        return diffs(tuple(a.co_consts), tuple(b.co_consts), path + ".co_consts", out)
    if type(a) is not type(b):
        out.append("%s: kind %s vs %s (%r vs %r)" % (path, type(a).__name__, type(b).__name__, a, b))
        return out
    if isinstance(a, (tuple, list)):
        if len(a) != len(b):
            out.append("%s: length %d vs %d" % (path, len(a), len(b)))
            return out
        for i in range(len(a)):
            diffs(a[i], b[i], "%s[%d]" % (path, i), out)
        return out
    if isinstance(a, (set, frozenset)):
        if len(a) != len(b):
            out.append("%s: set size" % path)
            return out
        for x in a:
            if not any(not diffs(x, y) for y in b):
                out.append("%s: element %r" % (path, x))
        return out
    if isinstance(a, float):
        if struct.pack("<d", a) != struct.pack("<d", b):
            out.append("%s: float bits" % path)
        return out
    if isinstance(a, complex):
        diffs(a.real, b.real, path, out)
        return diffs(a.imag, b.imag, path, out)
    if a != b:
        out.append("%s: %r vs %r" % (path, a, b))
    return out


out = []
for line in sys.stdin.read().split("\n"):
    if not line.strip():
        continue
    orig, new, hl = line.split("\t")
    hl = int(hl)
    try:
        a = marshal.loads(open(orig, "rb").read()[hl:])
        try:
            b = marshal.loads(open(new, "rb").read()[hl:])
            d = diffs(a, b)
        except Exception as e:
            d = ["target interpreter cannot load the rewritten file: %s: %s" % (type(e).__name__, e)]
    except Exception as e:
        d = ["ORACLE-PROBLEM original does not load: %s" % (e,)]
    out.append([new, d])
sys.stdout.write(json.dumps(out))
