"""Bounded check for C13: read -> write_bytecode_file -> {target interpreter, xdis} on the code objects the nine
installed interpreters compiled from 12 generated programs (spec/ref/oracle_*.json).  The oracle is the target
interpreter's own marshal.  A refusal of the writer (exception) satisfies the property ("raises instead of
emitting a different program").  Labelled bounded."""
import json
import os
import shutil
import subprocess
import sys
import tempfile

HERE = os.path.dirname(os.path.dirname(os.path.abspath(__file__)))
PY = {"2.7": "2.7.18", "3.6": "3.6.15", "3.7": "3.7.16", "3.8": "3.8.18", "3.9": "3.9.18", "3.10": "3.10.13", "3.11": "3.11.7", "3.12": "3.12.1", "3.13": "3.13.0"}


_LAST_ERR = [""]


def _key(side, ver, detail):
    """classification of a difference; the two recorded Python 2 writer defects get their own keys so that any other
    difference (also in the same file) is still reported"""
    import re
    if ver.startswith("2."):
        if re.search(r"kind int vs (long|LongTypeForPython3)", detail):
            return "py2-int-written-as-long"
        if re.search(r"kind str vs (unicode|UnicodeForPython3)", detail) or "non-string found in code slot" in detail:
            return "py2-str-written-as-unicode"
        if ver.startswith("2.5dropbox") and re.search(r"kind bytes vs str", detail):
            return "dropbox-bytes-read-back-as-str"
        if re.search(r"vs u'b'", detail) or re.search(r"kind unicode vs str|kind UnicodeForPython3 vs str", detail):
            return "py2-unicode-constant-mangled"
    if ver == "3.8" and "co_code should be one of the types" in detail:
        return "3.8-alpha-magic-written-with-posonlyargcount"
    return "%s:%s:%s" % (side, ver, detail.split(":")[0][:60])


def _compare(exe, cases):
    inp = "\n".join("%s\t%s\t%d" % tuple(c["files"]) for c in cases)
    q = subprocess.run([exe, os.path.join(HERE, "ground", "pyc_compare_target.py")], input=inp, capture_output=True, text=True, timeout=300)
    try:
        return json.loads(q.stdout)
    except Exception:
        _LAST_ERR[0] = q.stderr or ""
        return None


EXTRA_SRC = r'''
def f(tag, x):
    if tag in (b"GIF8", b"PNG"): return 1
    if tag in {b"GIF8", b"PNG", b"\xff\xd8"}: return 2
    if x in {1, 2, 4294967295}: return 3
    if x in (0.1 + 0.2, 1.7976931348623157e+308, 5e-324, 2.2250738585072014e-308, 123456789.12345678, 1.0 / 3.0, 0.30000000000000004 - 2.5j): return 4
    return (0xFFFFFFFF, 0x80000000, -2147483649, 2**64, -2**100, 4294967296, 0xEDB88320, 1.5, -0.0, 1e300, 1+2j,
            u"\u20ac", u"\xe9", b"\xff\x00", "abc", None, True, Ellipsis, 2147483647, -2147483648)
class K(object):
    def m(self, a, b=3, *c, **d):
        def inner(): return a + b
        return inner
lam = lambda q: q * 2147483648
'''


def _extra_oracles(tmp):
    """original code objects compiled at check time by each installed target interpreter from EXTRA_SRC (constant kinds
    the 12 stored programs lack: 32-bit-boundary ints, frozensets of bytes, non-Latin-1 text)"""
    d = os.path.join(tmp, "extra")
    os.makedirs(d)
    prog = ("import marshal, binascii, imp, sys\n" if False else "") + (
        "import marshal, binascii, sys\n"
        "try:\n    import importlib.util as u; magic = u.MAGIC_NUMBER\n"
        "except Exception:\n    import imp; magic = imp.get_magic()\n"
        "src = sys.stdin.read()\n"
        "co = compile(src, 'extra.py', 'exec')\n"
        "sys.stdout.write(binascii.hexlify(magic).decode() + ' ' + binascii.hexlify(marshal.dumps(co)).decode())\n")
    for ver, full in PY.items():
        exe = "/root/.pyenv/versions/%s/bin/python" % full
        if not os.path.exists(exe):
            continue
        q = subprocess.run([exe, "-c", prog], input=EXTRA_SRC, capture_output=True, text=True, timeout=120)
        if q.returncode != 0:
            continue
        magic, raw = q.stdout.split()
        with open(os.path.join(d, "oracle_%s.json" % ver), "w") as f:
            json.dump({"magic": magic, "programs": {"extra-consts": [{"marshal": raw}]}}, f)
    return d


def check(tier="quick", seed=0):
    repo = os.environ.get("XDIS_REPO", "/repo")
    hosts = [sys.executable] if tier == "quick" else [sys.executable, "/root/.pyenv/versions/3.8.18/bin/python", "/root/.pyenv/versions/3.13.0/bin/python"]
    tmp = tempfile.mkdtemp(prefix="xdis-verif-c13-")
    vio, n, notes, refused = [], 0, [], {}
    try:
        extra = _extra_oracles(tmp)
        import glob
        corpus = []
        for d in sorted(glob.glob(os.path.join(repo, "test", "bytecode_*"))):
            if "dropbox" in d:
                continue          # obfuscated 2.5: the reader decrypts into its own compat classes; there is no target Python to compare with
            fs = sorted(glob.glob(os.path.join(d, "*.py[co]")), key=lambda q: (os.path.getsize(q), q))
            corpus += fs[:2] if tier == "quick" else fs
        cj = os.path.join(tmp, "corpus.json")
        with open(cj, "w") as fh:
            json.dump(corpus, fh)
        for hx in hosts:
            if not os.path.exists(hx):
                continue
            env = dict(os.environ, PYTHONPATH=repo, PYTHONDONTWRITEBYTECODE="1")
            d = {"cases": []}
            for refdir in (os.path.join(HERE, "spec", "ref"), extra, cj):
                p = subprocess.run([hx, os.path.join(HERE, "ground", "pyc_roundtrip_worker.py"), refdir, tmp], capture_output=True, text=True, env=env, timeout=900)
                try:
                    d1 = json.loads(p.stdout)
                except Exception:
                    from ground.common import worker_failed
                    return worker_failed("ground.pyc_roundtrip", hx, p.stderr, repo)
                d["host"] = d1["host"]
                d["cases"] += d1["cases"]
            host = d["host"]
            by_ver = {}
            for c in d["cases"]:
                n += 1
                key = "%s/%s" % (c["version"], c["program"])
                if c["status"] == "read-failed":
                    vio.append({"name": "C13/bounded/read", "key": "read:" + c["version"], "host": host, "input": key, "detail": c["detail"]})
                elif c["status"] == "writer-raised":
                    refused.setdefault(c["version"], c["detail"])
                else:
                    if not c["header_same"]:
                        vio.append({"name": "C13/bounded/header", "key": "header:" + c["version"], "host": host, "input": key, "detail": "header bytes differ from the original's"})
                    for dd in c["reread_diff"] or []:
                        vio.append({"name": "C13/bounded/xdis-reread", "key": _key("reread", c["version"], dd), "host": host, "input": key, "detail": dd[:300]})
                    by_ver.setdefault(c["version"], []).append(c)
            for ver, cases in sorted(by_ver.items()):
                if ver not in PY:
                    continue          # corpus directory without a matching interpreter (1.x-2.6, 3.0-3.5, PyPy, dropbox): xdis re-read only
                exe = "/root/.pyenv/versions/%s/bin/python" % PY[ver]
                if not os.path.exists(exe):
                    notes.append("no interpreter for %s" % ver)
                    continue
                res = _compare(exe, cases)
                if res is None:
                    # the batch died (e.g. the target interpreter aborted on a rewritten file): one process per file
                    res = []
                    for c in cases:
                        r1 = _compare(exe, [c])
                        res.append(r1[0] if r1 else [c["files"][1], ["target interpreter crashed loading the rewritten file: %s" % _LAST_ERR[0][-160:].strip().replace("\n", " | ")]])
                for (new, dl), c in zip(res, cases):
                    n += 1
                    for dd in dl or []:
                        if dd.startswith("ORACLE-PROBLEM"):
                            if c.get("corpus"):
                                break        # a corpus file its nominal interpreter cannot load (interim magic): xdis re-read only
                            return {"name": "ground.pyc_roundtrip", "error": dd, "obligations": [], "violations": []}
                        vio.append({"name": "C13/bounded/target-interpreter", "key": _key("target", ver, dd), "host": host,
                                    "input": "%s/%s" % (c["version"], c["program"]), "detail": dd[:300]})
    finally:
        shutil.rmtree(tmp, ignore_errors=True)
    # one entry per distinct key
    seen, uniq = set(), []
    for v in vio:
        if v["key"] not in seen:
            seen.add(v["key"])
            uniq.append(v)
    return {"name": "ground.pyc_roundtrip", "kind": "bounded",
            "bound": "%d corpus files (xdis re-read; target interpreter where installed) + 12 stored programs + 1 compiled at check time (boundary ints, frozensets of bytes, non-Latin-1 text) x 9 bytecode versions (2.7, 3.6-3.13) x %d host(s); writer refused: %s" % (len(corpus), len(hosts), json.dumps(refused, sort_keys=True)[:300]),
            "evaluations": n, "violations": uniq, "obligations": [], "samples": [{"refused": refused}], "skipped": "; ".join(notes) or None,
            "assumptions": ["bounded: program equality is judged by the target interpreter's marshal.loads on 12 generated programs per version; execution of the rewritten file is not compared (field equality of code objects implies it)"]}
