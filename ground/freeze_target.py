# runs under the matching CPython (2.7, 3.6 ... 3.10; py2-compatible): decode encoded line tables with dis.findlinestarts
import dis
import json
import sys
import types

base = compile("pass", "f.py", "exec")
out = []
for case in json.loads(sys.stdin.read()):
    code = bytes(bytearray(case["n"]))
    tab = bytes(bytearray(case["encoded"]))
    try:
        if sys.version_info >= (3, 10):
            co = base.replace(co_code=code, co_firstlineno=case["first"], co_linetable=tab)
        elif sys.version_info >= (3, 8):
            co = base.replace(co_code=code, co_firstlineno=case["first"], co_lnotab=tab)
        elif sys.version_info >= (3, 0):
            co = types.CodeType(0, 0, 0, 1, 0, code, (None,), (), (), "f.py", "f", case["first"], tab, (), ())
        else:
            co = types.CodeType(0, 0, 1, 0, code, (None,), (), (), "f.py", "f", case["first"], tab, (), ())
        out.append([list(x) for x in dis.findlinestarts(co)])
    except Exception as e:
        out.append("ERR %s: %s" % (type(e).__name__, e))
sys.stdout.write(json.dumps(out))
