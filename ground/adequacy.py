"""Spec adequacy (bounded, never counted as proved): every spec function that stands for "what the matching
CPython does" is run natively against what the real interpreters reported for the code objects of
tools/oracle_dump.py's programs (spec/ref/oracle_<v>.json, 9 interpreters).  A disagreement is a *spec* bug:
it is reported as adequacy failure (checker error, exit 3), never as a violation of xdis."""
import binascii
import json
import os

HERE = os.path.dirname(os.path.dirname(os.path.abspath(__file__)))
VERS = ("2.7", "3.6", "3.7", "3.8", "3.9", "3.10", "3.11", "3.12", "3.13")


def _codes(ver):
    p = os.path.join(HERE, "spec", "ref", "oracle_%s.json" % ver)
    o = json.load(open(p))
    for prog, cos in sorted(o["programs"].items()):
        for i, d in enumerate(cos):
            yield o, prog, i, d


def check(which=("lines", "exc", "decode", "labels"), tier="quick", seed=0):
    """runs _check in a thread with a large stack: the forward-recursive specs recurse once per table entry"""
    import sys
    import threading
    out = {}
    sys.setrecursionlimit(200000)
    threading.stack_size(512 * 1024 * 1024)

    def run():
        try:
            out["r"] = _check(which, tier, seed)
        except BaseException as e:
            out["r"] = {"name": "ground.adequacy", "kind": "bounded", "error": "%s: %s" % (type(e).__name__, str(e)[:300]),
                        "obligations": [], "violations": []}
    t = threading.Thread(target=run)
    t.start()
    t.join()
    return out["r"]


def _check(which, tier, seed):
    from spec import lnotab as LN, linetable310 as L10, loctable311 as T, exctable as X, wordcode as W, jumps as J, reftables
    fails = []
    n = 0
    samples = []
    tabs = reftables.all_tables()
    for ver in VERS:
        vt = tuple(int(x) for x in ver.split("."))
        lb = ver.replace(".", "")
        opc = tabs.get(lb)
        for o, prog, i, d in _codes(ver):
            code = binascii.unhexlify(d["co_code"])
            first = d["co_firstlineno"]
            tag = "%s/%s#%d" % (ver, prog, i)
            if "lines" in which:
                want = [tuple(x) for x in d["findlinestarts"]]
                if vt < (3, 10):
                    tab = binascii.unhexlify(d["co_lnotab"])
                    got = LN.ln_starts(tab, first, len(code), *LN.version_flags(vt))
                    n += 1
                    if got != want:
                        fails.append((tag, "lnotab", want[:4], got[:4]))
                else:
                    tab = binascii.unhexlify(d["co_linetable"])
                    rows = L10.lines310(tab, first) if vt == (3, 10) else T.co_lines(tab, first)
                    cl = [tuple(x) for x in d["co_lines"]]

                    def expand(rs):
                        m = {}
                        for s, e, l in rs:
                            for a in range(s, e, 2):
                                m[a] = l
                        return m
                    n += 1
                    if (rows != cl) if vt != (3, 11) else (expand(rows) != expand(cl)):
                        fails.append((tag, "co_lines", cl[:4], rows[:4]))
                    starts = L10.starts_313(cl) if vt >= (3, 13) else L10.starts_310(cl)
                    n += 1
                    if starts != want:
                        fails.append((tag, "findlinestarts-over-co_lines", want[:4], starts[:4]))
                    if len(samples) < 3:
                        samples.append({"case": tag, "co_lines": cl[:3], "spec": rows[:3]})
            if "exc" in which and "exception_entries" in d:
                tab = binascii.unhexlify(d["co_exceptiontable"])
                want = [tuple(x) for x in d["exception_entries"]]
                got = X.entries(tab)
                n += 1
                if got != want:
                    fails.append((tag, "exception-table", want[:3], got[:3]))
            if opc is None:
                continue
            ref = reftables.ref_for(opc)
            have, ext = ref.have_argument, ref.extended_arg
            ins = d["instructions"]
            if "decode" in which:
                if vt >= (3, 6):
                    ct = [ref.caches.get(k, 0) for k in range(256)]
                    for w in ins:
                        off, op, _, arg = w[0], w[1], w[2], w[3]
                        if w[2] == "CACHE":
                            continue
                        k = off // 2
                        n += 1
                        if code[off] != op:
                            fails.append((tag, "opcode@%d" % off, op, code[off]))
                        if op in ref.hasarg:
                            got = code[off + 1] + (W.c_ext(code, k, ref.hasarg, ext, ct) if vt >= (3, 11) else W.w_ext(code, k, have, ext))
                            if vt >= (3, 11) and W.c_skip(code, k, ct) != 0:
                                fails.append((tag, "instruction-at-cache-word@%d" % off, 0, W.c_skip(code, k, ct)))
                            if got != arg:
                                fails.append((tag, "arg@%d" % off, arg, got))
                else:
                    dec = W.decode_bytes(code, have, ext)
                    want = [(w[0], w[1], w[3]) for w in ins]
                    n += 1
                    if dec != want:
                        fails.append((tag, "decode_bytes", want[:3], dec[:3]))
            if "labels" in which:
                want = sorted(set(d["findlabels"]))
                if vt >= (3, 11):
                    got = J.clab(code, len(code) // 2, ref.hasarg, ext, ref.hasjrel, ref.hasjabs, ref.backward, [ref.caches.get(k, 0) for k in range(256)], ref.caches_in_targets)
                elif vt >= (3, 6):
                    got = J.wlab(code, len(code) // 2, have, ext, 2 if vt >= (3, 10) else 1, ref.hasjrel, ref.hasjabs, ref.backward, [0] * 256, False)
                else:
                    got = J.blab(code, W.b_cnt(code, 0, have), have, ext, ref.hasjrel, ref.hasjabs)
                n += 1
                if sorted(got) != want:
                    fails.append((tag, "labels", want[:6], sorted(got)[:6]))
    return {"name": "ground.adequacy(%s)" % ",".join(which), "kind": "bounded", "bound": "code objects of 12 generated programs x 9 interpreters (oracle dumps)",
            "evaluations": n, "violations": [], "obligations": [], "samples": samples,
            "adequacy_failures": fails[:10],
            "assumptions": ["spec functions agree with the real CPythons on the oracle corpus (checked on every run); agreement beyond it is trusted"]}
