"""Worker of ground/pyc_roundtrip.py (C13, bounded): runs under one host interpreter with PYTHONPATH=<repo>.
For every (version, program) of the oracle dumps: build the original .pyc, read it with xdis, write it back with
write_bytecode_file, re-read the result with xdis and compare the two reads.  Leaves orig/rewritten files in outdir
for the target interpreters to compare.  Prints one JSON object."""
import binascii
import io
import json
import os
import struct
import sys
import types


def fields(co):
    names = ("co_argcount", "co_posonlyargcount", "co_kwonlyargcount", "co_nlocals", "co_stacksize", "co_flags", "co_code", "co_names", "co_varnames",
             "co_freevars", "co_cellvars", "co_filename", "co_name", "co_qualname", "co_firstlineno", "co_lnotab", "co_linetable", "co_exceptiontable")
    return [n for n in names if hasattr(co, n)]


def diffs(a, b, path="co", out=None):
    """all differences (bounded), not only the first: a known finding must not hide another difference"""
    if out is None:
        out = []
    if len(out) >= 40:
        return out
    if hasattr(a, "co_code") or hasattr(b, "co_code"):
        if not (hasattr(a, "co_code") and hasattr(b, "co_code")):
            out.append("%s: code vs non-code" % path)
            return out
        for f in fields(a):
            if f == "co_lnotab" and hasattr(a, "co_linetable"):
                continue
            if not hasattr(b, f):
                out.append("%s.%s missing" % (path, f))
                continue
            x, y = getattr(a, f), getattr(b, f)
            if f in ("co_lnotab", "co_linetable", "co_code", "co_exceptiontable"):
                if isinstance(x, str):
                    x = x.encode("latin-1")
                if isinstance(y, str):
                    y = y.encode("latin-1")
                if isinstance(x, dict) or isinstance(y, dict):
                    continue
            diffs(x, y, "%s.%s" % (path, f), out)
        return diffs(tuple(a.co_consts), tuple(b.co_consts), path + ".co_consts", out)
    if type(a) is not type(b):
        out.append("%s: kind %s vs %s (%r vs %r)" % (path, type(a).__name__, type(b).__name__, a, b))
        return out
    if isinstance(a, (tuple, list)):
        if len(a) != len(b):
            out.append("%s: length %d vs %d" % (path, len(a), len(b)))
            return out
        for i, (x, y) in enumerate(zip(a, b)):
            diffs(x, y, "%s[%d]" % (path, i), out)
        return out
    if isinstance(a, (set, frozenset)):
        if len(a) != len(b):
            out.append("%s: set size" % path)
            return out
        for x in a:
            if not any(not diffs(x, y) for y in b):
                out.append("%s: element %r" % (path, x))
        return out
    if isinstance(a, float):
        if struct.pack("<d", a) != struct.pack("<d", b):
            out.append("%s: float bits" % path)
        return out
    if isinstance(a, complex):
        diffs(a.real, b.real, path, out)
        return diffs(a.imag, b.imag, path, out)
    if a != b:
        out.append("%s: %r vs %r" % (path, a, b))
    return out


def corpus_mode(files, outdir, out):
    """files of the repository's corpus (all versions): read, write back, re-read with xdis"""
    from xdis.load import load_module_from_file_object, write_bytecode_file
    for path in files:
        data = open(path, "rb").read()
        label = os.path.basename(os.path.dirname(path)).replace("bytecode_", "")
        case = {"version": label, "program": os.path.basename(path), "corpus": True}
        base = os.path.join(outdir, "%s_c_%s_%s" % (out["host"], label, os.path.basename(path)))
        try:
            r1 = load_module_from_file_object(io.BytesIO(data), path, get_code=True)
        except Exception as e:
            case["status"] = "read-failed"
            case["detail"] = "%s: %s" % (type(e).__name__, str(e)[:120])
            out["cases"].append(case)
            continue
        vt = tuple(r1[0][:2])
        case["magic_int"] = r1[2]
        case["vt"] = list(vt)
        hl = 16 if vt >= (3, 7) else (12 if vt >= (3, 3) else 8)
        with open(base + ".orig.pyc", "wb") as f:
            f.write(data)
        try:
            write_bytecode_file(base + ".new.pyc", r1[3], r1[2], r1[1] or 1, r1[5] or 0)
        except Exception as e:
            case["status"] = "writer-raised"
            case["detail"] = "%s: %s" % (type(e).__name__, str(e)[:120])
            for q in (base + ".new.pyc",):
                if os.path.exists(q):
                    os.unlink(q)
            out["cases"].append(case)
            continue
        new = open(base + ".new.pyc", "rb").read()
        from xdis.magics import magic2int
        # the header is compared when the reader reports the file's own magic word (it reports another one for PyPy 3.2's
        # magic 48 and for decrypted dropbox files) and the file is timestamp-based
        case["header_same"] = True if (r1[1] is None or magic2int(data[:4]) != r1[2]) else new[:hl] == data[:hl]
        try:
            r2 = load_module_from_file_object(io.BytesIO(new), base + ".new.pyc", get_code=True)
            d = diffs(r1[3], r2[3])
        except Exception as e:
            d = ["xdis cannot re-read its own output: %s: %s" % (type(e).__name__, str(e).replace("\n", " ")[-150:])]
        case["status"] = "written"
        case["reread_diff"] = d
        case["files"] = [base + ".orig.pyc", base + ".new.pyc", hl]
        out["cases"].append(case)


def main():
    refdir, outdir = sys.argv[1], sys.argv[2]
    only = sys.argv[3].split(",") if len(sys.argv) > 3 and sys.argv[3] else None
    from xdis.load import load_module_from_file_object, write_bytecode_file
    from xdis.magics import magic2int
    out = {"host": "%d.%d.%d" % sys.version_info[:3], "cases": []}
    if refdir.endswith(".json"):
        corpus_mode(json.load(open(refdir)), outdir, out)
        print(json.dumps(out))
        return
    for ver in ("2.7", "3.6", "3.7", "3.8", "3.9", "3.10", "3.11", "3.12", "3.13"):
        if only and ver not in only:
            continue
        p = os.path.join(refdir, "oracle_%s.json" % ver)
        if not os.path.exists(p):
            continue
        o = json.load(open(p))
        magic = binascii.unhexlify(o["magic"])
        mi = magic2int(magic)
        vt = tuple(int(x) for x in ver.split("."))
        for prog in sorted(o["programs"]):
            raw = binascii.unhexlify(o["programs"][prog][0]["marshal"])
            ts, size = 1234567, 4321
            hdr = magic + (b"\0" * 4 if vt >= (3, 7) else b"") + struct.pack("<I", ts) + (struct.pack("<I", size) if vt >= (3, 3) else b"")
            data = hdr + raw
            case = {"version": ver, "program": prog, "magic_int": mi}
            base = os.path.join(outdir, "%s_%s_%s" % (out["host"], ver, prog))
            with open(base + ".orig.pyc", "wb") as f:
                f.write(data)
            try:
                r1 = load_module_from_file_object(io.BytesIO(data), base + ".orig.pyc", get_code=True)
            except Exception as e:
                case["status"] = "read-failed"
                case["detail"] = "%s: %s" % (type(e).__name__, e)
                out["cases"].append(case)
                continue
            co = r1[3]
            case["native"] = isinstance(co, types.CodeType)
            try:
                write_bytecode_file(base + ".new.pyc", co, mi, ts, size)
            except Exception as e:
                case["status"] = "writer-raised"
                case["detail"] = "%s: %s" % (type(e).__name__, str(e)[:120])
                try:
                    os.unlink(base + ".new.pyc")
                except OSError:
                    pass
                out["cases"].append(case)
                continue
            new = open(base + ".new.pyc", "rb").read()
            case["header_same"] = new[:len(hdr)] == hdr
            try:
                r2 = load_module_from_file_object(io.BytesIO(new), base + ".new.pyc", get_code=True)
                d = diffs(r1[3], r2[3])
                if tuple(r1[:3]) + tuple(r1[4:]) != tuple(r2[:3]) + tuple(r2[4:]):
                    d.append("header fields differ: %r vs %r" % (tuple(r1[:3]) + tuple(r1[4:]), tuple(r2[:3]) + tuple(r2[4:])))
            except Exception as e:
                d = ["xdis cannot re-read its own output: %s: %s" % (type(e).__name__, str(e)[:150])]
            case["status"] = "written"
            case["reread_diff"] = d
            case["files"] = [base + ".orig.pyc", base + ".new.pyc", len(hdr)]
            out["cases"].append(case)
    print(json.dumps(out))


main()
