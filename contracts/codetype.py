"""Sidecar contracts for xdis/codetype: native <-> portable conversion (C16).

Field values are abstract tokens (identity + python type): the property is pure plumbing -- every field of the
result must be *the* corresponding field of the input.  The host is a configuration: its types.CodeType
attribute set and positional constructor order come from spec/ref/hosts.json (extracted from, and validated
against, the six installed interpreters 3.8 - 3.13)."""
import json
import os
import types
from pyvc.engine import Contract, SObj, GLOBAL_OVERRIDES, Opaque
from pyvc.types import Maker, Tok, Same, Const
from pyvc.sym import And, Or, Not, Implies
from contracts.common import Registry

HERE = os.path.dirname(os.path.dirname(os.path.abspath(__file__)))
HOSTS = json.load(open(os.path.join(HERE, "spec", "ref", "hosts.json")))

R = Registry()
contract = R.contract
CONTRACTS = R.contracts
configs_for = R.configs_for

FIELD_TYPES = {"co_argcount": int, "co_posonlyargcount": int, "co_kwonlyargcount": int, "co_nlocals": int, "co_stacksize": int,
               "co_flags": int, "co_code": bytes, "co_consts": tuple, "co_names": tuple, "co_varnames": tuple, "co_filename": str,
               "co_name": str, "co_qualname": str, "co_firstlineno": int, "co_lnotab": bytes, "co_linetable": bytes,
               "co_exceptiontable": bytes, "co_freevars": tuple, "co_cellvars": tuple}


def expected_class(host):
    import xdis.codetype as C
    return {"3.8": C.Code38, "3.9": C.Code38, "3.10": C.Code310, "3.11": C.Code311, "3.12": C.Code311, "3.13": C.Code311}[host]


def host_triple(host):
    return tuple(int(x) for x in host.split(".")) + (0,)


def set_host(host):
    """host-dependent module constants seen by the code under verification"""
    t = host_triple(host)
    for m in ("xdis.codetype.code13", "xdis.codetype.code15", "xdis.codetype.code20", "xdis.codetype.code30", "xdis.codetype.code38",
              "xdis.codetype.code310", "xdis.codetype.code311", "xdis.codetype", "xdis.codetype.base"):
        GLOBAL_OVERRIDES.setdefault(m, {})["PYTHON_VERSION_TRIPLE"] = t


class NativeCode(Maker):
    """a native code object of the configured host: one token per attribute the host's types.CodeType has"""
    def __call__(self, eng, name):
        host = eng.entry_cfg["_host"]
        set_host(host)
        fields = dict((a, Opaque("%s.%s" % (name, a), FIELD_TYPES[a])) for a in HOSTS[host]["attrs"] if a in FIELD_TYPES)
        return SObj(__class__=types.CodeType, **fields), []


def host_configs():
    return dict((h, {"_host": h, "version_tuple": host_triple(h)}) for h in sorted(HOSTS, key=lambda x: tuple(int(y) for y in x.split("."))))


def portable_post(code, result, _engine):
    host = _engine.entry_cfg["_host"]
    out = [("portable-type", result.__dict__["_f"].get("__class__") is expected_class(host))]
    for a in HOSTS[host]["ctor_order"]:
        out.append(("field/%s" % a, getattr(result, a, None) is getattr(code, a)))
    return out


def portable_configs():
    """the version_tuple argument defaults to the host's triple; callers that pass one give (major, minor) as often as a triple"""
    out = {}
    for h, cfg in host_configs().items():
        out[h] = cfg
        out[h + "/pair"] = dict(cfg, version_tuple=cfg["version_tuple"][:2])
    return out


contract(
    "xdis.codetype:codeType2Portable",
    configs=portable_configs,
    params={"code": NativeCode()},
    ensures=portable_post,
)


class PortableCode(Maker):
    """an instance of the host's portable code class whose fields are tokens of the right types"""
    def __call__(self, eng, name):
        host = eng.entry_cfg["_host"]
        set_host(host)
        cls = expected_class(host)
        fields = dict((a, Opaque("%s.%s" % (name, a), FIELD_TYPES[a])) for a in HOSTS[host]["ctor_order"])
        import importlib
        mod = importlib.import_module(cls.__module__)
        ftypes = [v for k, v in vars(mod).items() if k.endswith("FieldTypes") and k.startswith(cls.__name__)]
        obj = SObj(__class__=cls, **fields)
        obj.fieldtypes = ftypes[0] if ftypes else getattr(mod, "Code38FieldTypes", None)
        return obj, []


def native_ctor(eng, args, kwargs):
    host = eng.entry_cfg["_host"]
    order = HOSTS[host]["ctor_order"]
    if len(args) != len(order):
        from pyvc.engine import PyRaise
        raise PyRaise(TypeError, "code() takes %d positional arguments" % len(order))
    return SObj(__class__=types.CodeType, **dict(zip(order, args)))


EXT_CODETYPE = Contract("builtins:code", note="types.CodeType constructor: positional order per host from spec/ref/hosts.json")
EXT_CODETYPE.external_args = ["*"]
EXT_CODETYPE.external_result = native_ctor


def native_post(self, _old_self, result, _engine):
    host = _engine.entry_cfg["_host"]
    out = [("is-native", result.__dict__["_f"].get("__class__") is types.CodeType),
           # frame: to_native() neither changes nor adds state on the portable object ("modifies nothing")
           ("frame/no-attribute-added-or-removed", sorted(self.__dict__["_f"]) == sorted(_old_self.__dict__["_f"]))]
    for a in HOSTS[host]["ctor_order"]:
        out.append(("field/%s" % a, getattr(result, a, None) is getattr(_old_self, a)))
        out.append(("self-unchanged/%s" % a, getattr(self, a) is getattr(_old_self, a)))
    return out


for _cls, _mod, _hosts in (("Code38", "xdis.codetype.code38", ("3.8", "3.9")), ("Code310", "xdis.codetype.code310", ("3.10",)),
                           ("Code311", "xdis.codetype.code311", ("3.11", "3.12", "3.13"))):
    contract(
        "%s:%s.to_native" % (_mod, _cls),
        configs=(lambda hs: lambda: dict((h, {"_host": h}) for h in hs))(_hosts),
        params={"self": PortableCode()},
        ensures=native_post,
    )


def replace_post(self, _old_self, result, kwargs, _engine):
    host = _engine.entry_cfg["_host"]
    out = [("fresh-object", result is not self),
           ("frame/no-attribute-added-or-removed", sorted(self.__dict__["_f"]) == sorted(_old_self.__dict__["_f"]))]
    for a in HOSTS[host]["ctor_order"]:
        want = kwargs[a] if a in kwargs else getattr(_old_self, a)
        out.append(("field/%s" % a, getattr(result, a, None) is want))
        out.append(("original-unchanged/%s" % a, getattr(self, a) is getattr(_old_self, a)))
    return out


class ReplaceArgs(Maker):
    def __call__(self, eng, name):
        return {"co_name": Opaque("new_name", str), "co_firstlineno": Opaque("new_line", int)}, []


contract(
    "xdis.codetype.code13:Code13.replace",
    configs=lambda: dict((h, {"_host": h}) for h in HOSTS),
    params={"self": PortableCode(), "kwargs": ReplaceArgs()},
    ensures=replace_post,
)

for _c in CONTRACTS:
    _c.no_native_replay = True
ALL_CONTRACTS = CONTRACTS + [EXT_CODETYPE]
