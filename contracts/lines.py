"""Sidecar contracts for the 3.10+ line tables: Code310.co_lines, the co_lines() branch of findlinestarts,
opcode_313.findlinestarts_313 (C05)."""
import z3
from pyvc.engine import Loop, SUnion
from pyvc.types import Int, Bytes, Record, TripleOptFn, Col, Union, OptInt, ForAll
from pyvc.sym import And, Or, Not, Implies, If, Len, SOpt, SInt, SBool
from contracts.common import Registry, IsNone, OptVal
from spec import linetable310 as L10

R = Registry()
contract = R.contract
CONTRACTS = R.contracts
configs_for = R.configs_for


def enc_triple(value):
    return (value[0], value[1], If(IsNone(value[2]), 1, 0), If(IsNone(value[2]), 0, OptVal(value[2])))


# Code310.co_lines(): the whole yielded sequence == CPython 3.10's code.co_lines() (spec lt310)
contract(
    "xdis.codetype.code310:Code310.co_lines",
    kind="generator",
    params={"self": Record(co_firstlineno=Int(pool=[1, 10, 0, 300]), co_linetable=Bytes(alphabet=[0, 1, 2, 4, 6, 127, 128, 129, 255, 250], maxlen=8, even=True))},
    requires=lambda self: Len(self.co_linetable) % 2 == 0,
    yield_seq=4, yield_encode=lambda value: enc_triple(value),
    yields_eq=lambda self: tuple(L10.lt310(self.co_linetable, 0, 0, self.co_firstlineno, w) for w in range(4)),
    native_yields=lambda self: L10.lines310(self.co_linetable, self.co_firstlineno),
    loops={0: Loop("for offset_delta, line_delta in struct.iter_unpack('=Bb', self.co_linetable)",
                   invariant=lambda self, end_offset, line, _k, _ys: And(*[
                       _ys[w] + L10.lt310(self.co_linetable, _k, end_offset, line, w) == L10.lt310(self.co_linetable, 0, 0, self.co_firstlineno, w)
                       for w in range(4)]))},
)


def cols(code):
    return Col(code.co_lines, 0), Col(code.co_lines, 2), Col(code.co_lines, 3)


# findlinestarts(), branch for code objects that have co_lines() (3.10 - 3.12 tables)
contract(
    "xdis.cross_dis:findlinestarts", name="xdis.cross_dis:findlinestarts/co_lines",
    kind="generator",
    when=lambda code: hasattr(code, "co_lines"),
    configs={"3.10": {"version_tuple": (3, 10), "dup_lines": False}, "3.11": {"version_tuple": (3, 11), "dup_lines": False},
             "3.12": {"version_tuple": (3, 12), "dup_lines": False}, "None": {"version_tuple": None, "dup_lines": False}},
    params={"code": Record(co_lines=TripleOptFn())},
    yield_seq=2,
    yields_eq=lambda code: tuple(L10.cl_out(*cols(code), 0, False, 0, w) for w in range(2)),
    native_yields=lambda code: L10.starts_310(code.co_lines),
    loops={0: Loop("for start, _, line in code.co_lines()",
                   invariant=lambda code, lastline, _k, _ys: And(*[
                       _ys[w] + L10.cl_out(*cols(code), _k, Not(IsNone(lastline)), OptVal(lastline), w) == L10.cl_out(*cols(code), 0, False, 0, w)
                       for w in range(2)]))},
)


def st13(lastline):
    """(state, last) of the 3.13 spec for xdis's `lastline` variable (False | None | int)"""
    if isinstance(lastline, SUnion):
        f, o = lastline.alts
        isf = SBool(lastline.tag == 0)
        state = If(isf, 0, If(IsNone(o), 1, 2))
        return state, If(state == 2, OptVal(o), 0)
    if lastline is False:
        return 0, 0
    if lastline is None:
        return 1, 0
    if isinstance(lastline, SOpt):
        return If(IsNone(lastline), 1, 2), If(IsNone(lastline), 0, OptVal(lastline))
    return 2, lastline


def no_equal_neighbours(code):
    """co_lines() of 3.12+ merges consecutive ranges with the same line, so neighbours differ; needed because
    findlinestarts_313 (like CPython's) compares with `is not`, which is value-independent for large ints"""
    st, no, li = cols(code)
    return ForAll(lambda i: Implies(And(0 <= i, i + 1 < Len(st), no[i] == 0, no[i + 1] == 0), li[i] != li[i + 1]))


contract(
    "xdis.opcodes.opcode_313:findlinestarts_313",
    kind="generator",
    configs={"": {"dup_lines": False}},
    params={"code": Record(co_lines=TripleOptFn())},
    requires=lambda code: no_equal_neighbours(code),
    yield_seq=3, yield_encode=lambda value: (value[0], If(IsNone(value[1]), 1, 0), If(IsNone(value[1]), 0, OptVal(value[1]))),
    yields_eq=lambda code: tuple(L10.cl13_out(*cols(code), 0, 0, 0, w) for w in range(3)),
    native_yields=lambda code: L10.starts_313(code.co_lines),
    loops={0: Loop("for start, _, line in code.co_lines()",
                   havoc={"lastline": Union(False, OptInt())},
                   invariant=lambda code, lastline, _k, _ys: And(
                       Implies(And(_k >= 1, st13(lastline)[0] == 1), Col(code.co_lines, 2)[_k - 1] != 0),
                       Implies(And(_k >= 1, st13(lastline)[0] == 2), And(Col(code.co_lines, 2)[_k - 1] == 0, Col(code.co_lines, 3)[_k - 1] == st13(lastline)[1])),
                       Implies(_k == 0, st13(lastline)[0] == 0), Implies(_k >= 1, st13(lastline)[0] != 0),
                       *[_ys[w] + L10.cl13_out(*cols(code), _k, st13(lastline)[0], st13(lastline)[1], w) == L10.cl13_out(*cols(code), 0, 0, 0, w)
                         for w in range(3)]))},
)
