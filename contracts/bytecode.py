"""Sidecar contracts for xdis/bytecode.py."""
from pyvc.engine import Contract, Loop
from pyvc.types import Int, PairList, BytesIter, ForAll, Bytes
from pyvc.sym import And, Or, Not, Implies, If, Len

CONTRACTS = []


def contract(*a, **k):
    c = Contract(*a, **k)
    CONTRACTS.append(c)
    return c


def strictly_increasing(ls):
    return ForAll(lambda i, j: Implies(And(0 <= i, i < j, j < Len(ls)), ls[i][0] < ls[j][0]))


# C05: offset2line() returns the line of the greatest start offset <= the queried offset, 0 if none.
# (For strictly increasing offsets that start is unique, and it exists iff offset >= linestarts[0][0];
#  the postcondition below pins the result for *every* j with the "greatest start <= offset" property.)
contract(
    "xdis.bytecode:offset2line",
    params={"offset": Int(pool=range(-1, 14)), "linestarts": PairList(sorted_first=True)},
    requires=lambda linestarts: strictly_increasing(linestarts),
    ensures=lambda offset, linestarts, result: [
        ("none-below", Implies(Or(Len(linestarts) == 0, offset < linestarts[0][0]), result == 0)),
        ("greatest-start", ForAll(lambda j: Implies(
            And(0 <= j, j < Len(linestarts), linestarts[j][0] <= offset,
                Or(j == Len(linestarts) - 1, linestarts[j + 1][0] > offset)),
            result == linestarts[j][1]))),
    ],
    loops={0: Loop("while low <= high",
                   invariant=lambda low, high, mid, offset, linestarts: And(
                       0 <= low, high < Len(linestarts), low <= high + 1,
                       mid == (low + high + 1) // 2,
                       ForAll(lambda i: Implies(And(0 <= i, i < low), linestarts[i][0] < offset)),
                       ForAll(lambda i: Implies(And(high < i, i < Len(linestarts)), linestarts[i][0] > offset))),
                   decreases=lambda low, high: high - low + 1)},
)


# ------------------------------------------------------------------------------------------------
# C17: exception table.  _parse_varint == big-endian 6-bit varint of the format; StopIteration exactly
# when the stream ends inside the varint; the iterator is left right after the varint.
from spec import exctable as X
from pyvc.sym import ZSeq, SInt, SBool, _ie, _be
from pyvc.engine import HSymList, HList
from pyvc.types import Maker
import z3

contract(
    "xdis.bytecode:_parse_varint",
    params={"iterator": BytesIter()},
    raises={StopIteration: lambda _old_iterator: Not(X.be_varint(_old_iterator.data, _old_iterator.pos)[0])},
    ensures=lambda iterator, _old_iterator, result: [
        ("complete", X.be_varint(_old_iterator.data, _old_iterator.pos)[0]),
        ("value", result == X.be_varint(_old_iterator.data, _old_iterator.pos)[1]),
        ("position", iterator.pos == X.be_varint(_old_iterator.data, _old_iterator.pos)[2]),
        ("advances", iterator.pos > _old_iterator.pos),
    ],
    result=Int(),
    effect=lambda eng, vals, result, exc: _varint_effect(eng, vals, result, exc),
    loops={0: Loop("while b & 64",
                   invariant=lambda iterator, _old_iterator, val, b: And(
                       val >= 0, b >= 0, b <= 255, iterator.pos > _old_iterator.pos,
                       X.bev(iterator.data, iterator.pos, val, b)[0] == X.be_varint(_old_iterator.data, _old_iterator.pos)[0],
                       X.bev(iterator.data, iterator.pos, val, b)[1] == X.be_varint(_old_iterator.data, _old_iterator.pos)[1],
                       X.bev(iterator.data, iterator.pos, val, b)[2] == X.be_varint(_old_iterator.data, _old_iterator.pos)[2]),
                   decreases=lambda iterator: Len(iterator.data) - iterator.pos + 1)},
    native_post=lambda _old_iterator, iterator, result: [
        ("value", result == X.be_varint(_old_iterator.data, _old_iterator.pos)[1]),
        ("position", iterator.pos == X.be_varint(_old_iterator.data, _old_iterator.pos)[2])],
)


def _varint_effect(eng, vals, result, exc):
    """call-site frame of _parse_varint: modifies iterator.pos only"""
    it = vals["iterator"]
    if exc is None:
        p = z3.Int(eng.fresh("pos"))
        eng.run.pc.append(z3.And(p >= 0, p <= it.seq.len_e()))
        it._pos = SInt(p)
    else:
        it._pos = SInt(it.seq.len_e())     # a varint that runs off the end consumes the rest of the stream


def _exc_col(entries, j):
    if isinstance(entries, HSymList):
        return entries.col(j)
    items = entries.items if isinstance(entries, HList) else list(entries)
    return ZSeq.of([(1 if e[j] else 0) if isinstance(e[j], bool) else e[j] for e in items])


class ExcEntryList(Maker):
    """symbolic list of _ExceptionTableEntry(start, end, target, depth, lasti: bool)"""
    def __call__(self, eng, name):
        import xdis.bytecode as B
        lst = HSymList(name, ["int", "int", "int", "int", "bool"], lambda c: B._ExceptionTableEntry(*c), lambda v: list(v))
        eng.havoc_heap(lst, name, True)
        return lst, []


contract(
    "xdis.bytecode:parse_exception_table",
    params={"exception_table": Bytes(maxlen=10)},
    ensures=lambda exception_table, result: [("field%d" % w, _exc_col(result, w) == X.exc_seq(exception_table, 0, w)) for w in range(5)],
    native_post=lambda exception_table, result: [("entries", [tuple(e) for e in result] == X.entries(exception_table))],
    loops={0: Loop("while True",
                   havoc={"entries": ExcEntryList()},
                   invariant=lambda exception_table, iterator, entries: And(*[
                       _exc_col(entries, w) + X.exc_seq(exception_table, iterator.pos, w) == X.exc_seq(exception_table, 0, w) for w in range(5)]),
                   decreases=lambda iterator: Len(iterator.data) - iterator.pos)},
)
