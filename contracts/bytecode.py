"""Sidecar contracts for xdis/bytecode.py."""
from pyvc.engine import Contract, Loop
from pyvc.types import Int, PairList, BytesIter, ForAll, Bytes
from pyvc.sym import And, Or, Not, Implies, If, Len

CONTRACTS = []


def contract(*a, **k):
    c = Contract(*a, **k)
    CONTRACTS.append(c)
    return c


def strictly_increasing(ls):
    return ForAll(lambda i, j: Implies(And(0 <= i, i < j, j < Len(ls)), ls[i][0] < ls[j][0]))


# C05: offset2line() returns the line of the greatest start offset <= the queried offset, 0 if none.
# (For strictly increasing offsets that start is unique, and it exists iff offset >= linestarts[0][0];
#  the postcondition below pins the result for *every* j with the "greatest start <= offset" property.)
contract(
    "xdis.bytecode:offset2line",
    params={"offset": Int(pool=range(-1, 14)), "linestarts": PairList(sorted_first=True)},
    requires=lambda linestarts: strictly_increasing(linestarts),
    ensures=lambda offset, linestarts, result: [
        ("none-below", Implies(Or(Len(linestarts) == 0, offset < linestarts[0][0]), result == 0)),
        ("greatest-start", ForAll(lambda j: Implies(
            And(0 <= j, j < Len(linestarts), linestarts[j][0] <= offset,
                Or(j == Len(linestarts) - 1, linestarts[j + 1][0] > offset)),
            result == linestarts[j][1]))),
    ],
    loops={0: Loop("while low <= high",
                   invariant=lambda low, high, mid, offset, linestarts: And(
                       0 <= low, high < Len(linestarts), low <= high + 1,
                       mid == (low + high + 1) // 2,
                       ForAll(lambda i: Implies(And(0 <= i, i < low), linestarts[i][0] < offset)),
                       ForAll(lambda i: Implies(And(high < i, i < Len(linestarts)), linestarts[i][0] > offset))),
                   decreases=lambda low, high: high - low + 1)},
)
