"""Sidecar contracts for xdis/load.py (C06 header decoding)."""
import struct
import z3
from pyvc.engine import Loop, HFile, Contract
from pyvc.types import Maker, Const, Int
from pyvc.sym import And, Or, Not, Implies, If, Len, SSeq, SInt, is_sym, _ie
from pyvc import sym
from contracts.common import Registry, IsNone, OptVal
from spec import pyc_header as H

R = Registry()
contract = R.contract
CONTRACTS = R.contracts
configs_for = R.configs_for


def magic_bytes(mi):
    if mi in (39170, 39171):
        return struct.pack("<H", mi) + b"\x99\x00"
    return struct.pack("<H", mi) + b"\r\n"


class PycFile(Maker):
    """file object over a byte string that starts with the configuration's magic and is otherwise symbolic
    (length >= 50, as load_module checks)"""
    def __call__(self, eng, name):
        mi = eng.entry_cfg["_magic"]
        mb = magic_bytes(mi)
        arr = z3.Array(name + "!data", z3.IntSort(), z3.IntSort())
        n = z3.Int(name + "!len")

        def get(i, mb=mb, arr=arr):
            i = z3.simplify(_ie(i))
            if z3.is_int_value(i) and 0 <= i.as_long() < 4:
                return mb[i.as_long()]
            e = z3.Select(arr, i)
            sym.note_fact(z3.And(e >= 0, e <= 255))
            return SInt(e)
        s = SSeq(n, get, kind="bytes", base=(name, arr, n))
        return HFile(s, 0), [n >= 50]

    def examples(self, rng, n):
        return []


def gen_pyc(config, rng, n):
    out = []
    mb = magic_bytes(config["_magic"])
    for _ in range(n):
        flags = rng.choice([0, 1, 3, 0, 0])
        body = bytes(rng.randrange(256) for _ in range(60))
        word = struct.pack("<I", flags) if rng.random() < 0.7 else body[:4]
        out.append(("__file__", mb + word + body, 0))
    return out


def header_configs():
    out = {}
    for mi, v in sorted(H.FINAL_MAGICS.items()):
        out["%d.%d/%d" % (v[0], v[1], mi)] = {"_magic": mi, "_version": v, "_pypy": False, "filename": "x.pyc", "code_objects": None, "fast_load": False, "get_code": True}
    for mi, v in sorted(H.PYPY_MAGICS.items()):
        out["%d.%dpypy/%d" % (v[0], v[1], mi)] = {"_magic": mi, "_version": v, "_pypy": True, "filename": "x.pyc", "code_objects": None, "fast_load": False, "get_code": True}
    return out


def header_post(_old_fp, result, _engine):
    cfg = _engine.entry_cfg
    data = _old_fp.data
    v = cfg["_version"]
    fam = H.family(v)
    out = [("version", result[0][:2] == v), ("is_pypy", result[4] == cfg["_pypy"])]
    if cfg["_magic"] != 48:
        out.append(("magic_int", result[2] == cfg["_magic"]))
    ts, size, hsh = result[1], result[5], result[6]
    if fam == "ts":
        out += [("timestamp", ts == H.le(data, 4, 4)), ("no-size", IsNone(size)), ("no-hash", IsNone(hsh))]
    elif fam == "ts_size":
        out += [("timestamp", ts == H.le(data, 4, 4)), ("source_size", size == H.le(data, 8, 4)), ("no-hash", IsNone(hsh))]
    else:
        flags = H.le(data, 4, 4)
        out += [("timestamp/flags=0", Implies(flags == 0, And(ts == H.le(data, 8, 4), size == H.le(data, 12, 4), IsNone(hsh)))),
                ("hash/flags=1|3", Implies(Or(flags == 1, flags == 3), And(hsh == H.le(data, 8, 8), IsNone(ts), IsNone(size))))]
    return out


def code_offset_ok(fp, _engine):
    """the code object is read from the byte right after the header"""
    cfg = _engine.entry_cfg
    if cfg.get("_escape_only"):
        return True          # magics outside C06's table: only exception escape is claimed (C11)
    fam = H.family(cfg["_version"])
    data = fp.data
    want = 8 if fam == "ts" else (12 if fam == "ts_size" else 16)
    if fam == "pep552":
        flags = H.le(data, 4, 4)
        return Implies(Or(flags == 0, flags == 1, flags == 3), fp.pos == want)
    return fp.pos == want


def bytes_offset_ok(bytecode, _engine):
    """marshal.loads(fp.read()) on the fast path: the bytes handed over start right after the header"""
    if _engine.entry_cfg.get("_escape_only"):
        return True
    if getattr(_engine, "native", False):
        fam = H.family(_engine.entry_cfg["_version"])
        want = 8 if fam == "ts" else (12 if fam == "ts_size" else 16)
        data = _engine.native_inputs["fp"][1]
        return bytes(bytecode) == data[want:]
    org = getattr(_engine, "origins", {}).get(id(bytecode))
    if org is None:
        return False
    fp, start = org[1]
    cfg = _engine.entry_cfg
    fam = H.family(cfg["_version"])
    want = 8 if fam == "ts" else (12 if fam == "ts_size" else 16)
    return SInt(_ie(start)) == want


class _Bind(object):
    pass


def _post(_old_fp, result, _engine):
    return header_post(_old_fp, result, _engine)


c = contract(
    "xdis.load:load_module_from_file_object",
    configs=header_configs,
    params={"fp": PycFile()}, examples={"fp": gen_pyc},
    raises={ImportError: True},
    ensures=_post,
)

# assumed contracts of what reads the code object: their precondition "the stream is positioned right
# after the header" is the proof obligation at the call site
EXT_LOAD_CODE = Contract("xdis.unmarshal:load_code", requires=lambda fp, _engine: code_offset_ok(fp, _engine), note="external: result unmodelled")
EXT_LOAD_CODE.external_args = ["fp", "magic_int", "bytes_for_s", "code_objects"]
EXT_MARSH_LOAD = Contract("xdis.marsh:load", requires=lambda f, _engine: code_offset_ok(f, _engine))
EXT_MARSH_LOAD.external_args = ["f", "python_version"]
EXT_MARSHAL_LOADS = Contract("marshal:loads", requires=lambda bytecode, _engine: bytes_offset_ok(bytecode, _engine))
EXT_MARSHAL_LOADS.external_args = ["bytecode"]
import types as _types
EXT_MARSHAL_LOADS.result_pytype = _types.CodeType
EXT_DROPBOX = Contract("xdis.dropbox.decrypt25:fix_dropbox_pyc", requires=lambda fp: fp.pos == 0, note="external: result unmodelled")
EXT_DROPBOX.external_args = ["fp", "fixed_pyc"]
# C11: whatever reads the code object may fail with any exception (corrupt input): the header reader must turn it
# into ImportError.  The fork "the external callee raised an exception of unknown class" is explored at every call.
for _e in (EXT_LOAD_CODE, EXT_MARSH_LOAD, EXT_MARSHAL_LOADS, EXT_DROPBOX):
    _e.may_raise = True


def escape_configs():
    out = dict(header_configs())
    base = {"filename": "x.pyc", "code_objects": None, "fast_load": False, "get_code": True, "_pypy": False}
    for label, mi in (("dropbox/62135", 62135), ("dropbox-hacked/62215", 62215), ("unknown-magic/12345", 12345), ("interim/3010", 3010),
                      ("interim/62071", 62071), ("unknown-magic/0", 0), ("unknown-magic/65535", 65535)):
        try:
            from xdis.magics import magic_int2tuple
            ver = tuple(magic_int2tuple(mi)[:2])
        except Exception:
            ver = None
        out[label] = dict(base, _magic=mi, _version=ver, _refused=True)
    # every other magic word xdis's own tables know (interim releases, Jython, Graal, PyPy, ...): exception escape only
    try:
        from xdis.magics import magicint2version
        have = set(v["_magic"] for v in out.values())
        for mi in sorted(magicint2version):
            if mi not in have and 0 <= mi < 65536:
                out["table/%d" % mi] = dict(base, _magic=mi, _version=None, _escape_only=True)
    except Exception:
        pass
    # the other two ways to the code reader
    for k in ("3.8/3413", "2.7/62211"):
        if k in out:
            out[k + "/fast_load"] = dict(out[k], fast_load=True)
            out[k + "/no-code"] = dict(out[k], get_code=False)
    return out


def escape_post(result, _engine):
    from pyvc.engine import Opaque
    cfg = _engine.entry_cfg
    if cfg["_magic"] == 62135:
        return [("dropbox-result-is-the-decoder's", isinstance(result, Opaque))]
    if cfg.get("_refused"):
        return [("unsupported magic must be refused", False)]
    if cfg.get("_escape_only"):
        return [("seven-tuple-or-decoder's", isinstance(result, Opaque) or (isinstance(result, tuple) and len(result) == 7))]
    return [("seven-tuple", isinstance(result, tuple) and len(result) == 7)]


contract(
    "xdis.load:load_module_from_file_object", name="xdis.load:load_module_from_file_object/escape",
    configs=escape_configs,
    params={"fp": PycFile()}, examples={"fp": gen_pyc},
    raises={ImportError: lambda _old_fp: Len(_old_fp.data) >= 50},
    ensures=escape_post,
)
ALL_CONTRACTS = CONTRACTS + [EXT_LOAD_CODE, EXT_MARSH_LOAD, EXT_MARSHAL_LOADS, EXT_DROPBOX]
c.externals = [EXT_LOAD_CODE, EXT_MARSH_LOAD, EXT_MARSHAL_LOADS]
