"""Shared helpers for the sidecar contracts."""
import z3
from pyvc.engine import Contract, Loop, HSetList, HList, HSymList
from pyvc.sym import SSet, SOpt, SBool, SInt, ZSeq, And, Or, Not, Implies, If, Len
from spec import reftables


class Registry(object):
    def __init__(self):
        self.contracts = []

    def contract(self, *a, **k):
        configs = k.pop("configs", None)
        if configs is not None and hasattr(configs, "pred") and "when" not in k:
            k["when"] = (lambda pred: lambda opc: pred(opc))(configs.pred)
        c = Contract(*a, **k)
        c._configs = configs
        self.contracts.append(c)
        return c

    def configs_for(self, c):
        cf = getattr(c, "_configs", None)
        if cf is None:
            return {"": {}}
        return cf() if callable(cf) else cf


def IsNone(x):
    if isinstance(x, SOpt):
        return SBool(x.isnone)
    return x is None


def OptVal(x):
    if isinstance(x, SOpt):
        return SInt(x.val)
    return 0 if x is None else x


def SetOf(lst):
    """abstraction: the set of elements of a list"""
    if isinstance(lst, HSetList):
        return lst.sset
    if isinstance(lst, HList):
        return frozenset(lst.items)
    if hasattr(lst, "set"):
        return lst.set
    return frozenset(lst)


_TABLES = None


def tables():
    global _TABLES
    if _TABLES is None:
        _TABLES = reftables.all_tables()
    return _TABLES


def table_configs(pred):
    f = lambda: dict((lb, {"opc": m}) for lb, m in tables().items() if pred(m))
    f.pred = pred
    return f


_REFS = {}


def REF(opc):
    k = opc.__name__
    if k not in _REFS:
        _REFS[k] = reftables.ref_for(opc)
    return _REFS[k]


def ctab(opc):
    """cache-entry table indexed by opcode (list of 256 ints) from the reference"""
    r = REF(opc)
    return [r.caches.get(i, 0) for i in range(256)]


def EXT(opc):
    return getattr(opc, "EXTENDED_ARG", -1) if hasattr(opc, "EXTENDED_ARG") else -1


def In(x, s):
    """membership in a concrete set, for concrete and symbolic x"""
    from pyvc.sym import is_sym
    if is_sym(x):
        return SSet.of(s).contains(x)
    return x in s


def At(seq, i):
    """seq[i]; natively 0 when i is out of range (symbolically arrays are total, so the value is arbitrary
    there -- only use under a guard that makes the conjunct false out of range)"""
    from pyvc.sym import is_sym
    if is_sym(seq) or is_sym(i):
        return seq[i]
    return seq[i] if 0 <= i < len(seq) else 0


def gen_code(config, rng, n):
    """well-formed code strings for the opcode table in config['opc'] (bounded native search): instructions
    drawn from the jump / EXTENDED_ARG / plain opcodes of the table, zeroed inline cache words after each
    instruction (3.11+), EXTENDED_ARG always followed by an operand-taking instruction"""
    opc = config["opc"]
    r = REF(opc)
    word = opc.version_tuple >= (3, 6)
    have = opc.HAVE_ARGUMENT
    ext = EXT(opc)
    jumps = sorted(set(r.hasjrel) | set(r.hasjabs))
    hasarg = sorted(x for x in r.hasarg if x != ext and x >= have and opc.opname[x] and not opc.opname[x].startswith("<"))
    noarg = sorted(x for x in range(1, have) if not opc.opname[x].startswith("<")) or [1]
    tabled = sorted(x for x in (set(r.hasconst) | set(r.hasname) | set(r.haslocal) | set(r.hasfree) | set(r.hascompare)) if x >= have and x < 256)
    out = []
    for _ in range(n):
        code = bytearray()
        for _i in range(rng.randint(1, 6)):
            roll = rng.random()
            pre = 0
            if ext >= 0 and roll < 0.3:
                pre = rng.randint(1, 3 if word else 1)
            small = False
            if roll < 0.45 and jumps:
                op = rng.choice(jumps)
            elif roll < 0.8 and tabled:
                op = rng.choice(tabled)
                small = True
            elif roll < 0.9 and hasarg:
                op = rng.choice(hasarg)
            else:
                op = rng.choice(noarg)
                pre = 0
            if op < have:
                pre = 0
            for _p in range(pre):
                if word:
                    code += bytes([ext, rng.choice([0, 1, 2, 255, rng.randrange(256)])])
                else:
                    code += bytes([ext, rng.randrange(256), rng.choice([0, 1, rng.randrange(256)])])
            if word:
                code += bytes([op, rng.choice([0, 1, 2, 3, 4, 5]) if small and not pre else rng.choice([0, 1, 2, 3, 5, 255, rng.randrange(256)])])
                for _c in range(r.caches.get(op, 0) if opc.version_tuple >= (3, 11) else 0):
                    code += b"\x00\x00"
            else:
                if op >= have:
                    code += bytes([op, rng.choice([0, 1, 2, 3, 4]), 0]) if small and not pre else bytes([op, rng.randrange(256), rng.choice([0, 0, 1, rng.randrange(256)])])
                else:
                    code += bytes([op])
        out.append(bytes(code))
    return out


def Has(setlike, x):
    """x in setlike, for symbolic sets (SSet) and python sets"""
    if isinstance(setlike, SSet):
        return setlike.contains(x)
    return x in setlike


def MapHas(m, k):
    return m.contains(k) if hasattr(m, "contains") else (k in m)


def MapAt(m, k):
    return m.at(k) if hasattr(m, "at") else m.get(k, 0)
