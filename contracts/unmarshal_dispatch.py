"""r_object dispatch and t_code field layout (C01): callees are abstract here (the readers themselves are
verified in contracts/unmarshal.py)."""
import z3
import types as _types
from pyvc.engine import Loop, SObj, Opaque, HFile, HRefTable, Contract
from pyvc.types import Maker, Int, Bool, Const
from pyvc.sym import And, Or, Not, Implies, If, Len, SInt, SBool, SEnum, _ie, is_sym
from contracts.common import Registry
from contracts.unmarshal import Unmarshaller, CLS, OBJ, END, NREF, le_s, B01, MAGIC_CLASSES, R_OBJECT_ABSTRACT
from spec import marshal_fmt as M

R = Registry()
contract = R.contract
CONTRACTS = R.contracts
configs_for = R.configs_for


def _reader_effect(eng, vals, result, exc):
    self = vals["self"]
    p1 = z3.Int(eng.fresh("pos"))
    eng.run.pc.append(z3.And(p1 >= _ie(self.fp.pos), p1 <= self.fp.seq.len_e()))
    self.fp._pos = SInt(p1)


def reader_names():
    import xdis.unmarshal as U
    return sorted(n for n in vars(U._VersionIndependentUnmarshaller) if n.startswith("t_"))


ABSTRACT_READERS = [Contract(CLS + n, name=CLS + n + "/abstract", result=Int(), effect=_reader_effect) for n in reader_names()]


def dispatch_post(self, bytes_for_s, result, _old_self, _engine):
    d, p0 = _old_self.data, _old_self.pos
    b = d[p0]
    code = b & 0x7F
    log = _engine.call_log or {}
    called = [(k.split(".")[-1], v) for k, v in log.items() if k.startswith(CLS + "t_") for _ in v]
    out = []
    known = sorted(ord(c) for c in M.DISPATCH)
    is_known = Or(*[code == k for k in known])
    if not called:
        out.append(("unknown-type-code-only", Not(is_known)))
        return out
    out.append(("one-reader", len(called) == 1))
    name, calls = called[0]
    a = calls[0]
    want_codes = [ord(c) for c, n in M.DISPATCH.items() if "t_" + n == name] + ([ord("C")] if name == "t_code" else [])
    out.append(("reader-matches-type-code", Or(*[code == k for k in want_codes]) if want_codes else False))
    out.append(("save_ref==FLAG_REF", a["save_ref"] == ((b & 0x80) != 0)))
    out.append(("bytes_for_s-passed-through", a["bytes_for_s"] is bytes_for_s if isinstance(bytes_for_s, bool) else a["bytes_for_s"] == bytes_for_s))
    out.append(("result-is-the-readers", result is calls[0].get("_result", result)))
    return out


contract(CLS + "r_object", params={"self": Unmarshaller(), "bytes_for_s": Bool()}, configs={"": {"_magic": 3413}}, when=lambda self: False,
         requires=lambda self: self.fp.pos + 1 <= Len(self.fp.data),
         ensures=dispatch_post, no_native_replay=True)


# at end of file r_object must raise (the container loops of C10's readers have no other exit on a truncated or
# hostile stream: C11's termination rests on it); returning a value there is refuted
contract(CLS + "r_object", name=CLS + "r_object/at-eof", params={"self": Unmarshaller(), "bytes_for_s": Bool()}, configs={"": {"_magic": 3413}},
         when=lambda self: False,
         requires=lambda self: self.fp.pos == Len(self.fp.data),
         raises={TypeError: lambda self: True},
         ensures=lambda self: [("at end of file r_object raises instead of returning an object", False)], no_native_replay=True)


# ------------------------------------------------------------------------------------------------
# t_code: order, width and signedness of the fields of a marshalled code object, per bytecode version
class CodeChild(Maker):
    """result of the abstract r_object inside t_code: an object handle; for the 3.11+ localsplus names / kinds
    a pair of handles / two kind bytes (bounded: two locals)"""
    def __call__(self, eng, name):
        cfg = eng.entry_cfg
        k = len((eng.call_log or {}).get(CLS + "r_object", []))      # this call's ordinal (already logged)
        lay = [x for x in M.code_layout(cfg["_version"]) if x[0] == "obj"]
        fld = lay[k - 1][1] if 0 < k <= len(lay) else None
        if fld == "co_localsplusnames":
            return (SInt(z3.Int(eng.fresh("lpname"))), SInt(z3.Int(eng.fresh("lpname")))), []
        if fld == "co_localspluskinds":
            from pyvc import sym
            a = z3.Array(eng.fresh("kinds"), z3.IntSort(), z3.IntSort())
            from pyvc.sym import SSeq, bytes_get
            return SSeq(2, bytes_get(a), kind="bytes"), []
        return SInt(z3.Int(eng.fresh("obj"))), []


def _code_child_effect(eng, vals, result, exc):
    self = vals["self"]
    fp = self.fp
    p0, r0 = fp.pos, self.internObjects.length
    p1 = z3.Int(eng.fresh("pos"))
    fp._pos = SInt(p1)
    grow = z3.Int(eng.fresh("newrefs"))
    self.internObjects.extra = z3.simplify(self.internObjects.extra + grow)
    eng.run.pc.extend([p1 == END(_ie(p0), _ie(r0)), p1 > _ie(p0), p1 <= fp.seq.len_e(), grow >= 0,
                       _ie(self.internObjects.length) == NREF(_ie(p0), _ie(r0))])
    log = eng.call_log[CLS + "r_object"][-1]
    log["_pos"] = p0
    log["_refs"] = r0
    log["_result"] = result


R_OBJECT_IN_CODE = Contract(CLS + "r_object", name=CLS + "r_object/in-code", result=CodeChild(), effect=_code_child_effect)
TO_PORTABLE = Contract("xdis.codetype:to_portable", name="xdis.codetype:to_portable/abstract")
TO_PORTABLE.external_args = ["*"]
TO_PORTABLE.result_pytype = object


def code_configs():
    import xdis.magics as MG
    out = {}
    for lb, mi in MAGIC_CLASSES.items():
        v = tuple(MG.magic_int2tuple(mi)[:2])
        out[lb] = {"_magic": mi, "_version": v, "_version_tuple": v, "bytes_for_s": False}
    return out


def code_post(self, save_ref, result, _old_self, _engine):
    cfg = _engine.entry_cfg
    v = cfg["_version"]
    lay = M.code_layout(v)
    log = _engine.call_log or {}
    objs = log.get(CLS + "r_object", [])
    tp = log.get("xdis.codetype:to_portable", [])
    out = [("to_portable-called-once", len(tp) == 1), ("number-of-sub-objects", len(objs) == len([x for x in lay if x[0] == "obj"]))]
    if len(tp) != 1 or len(objs) != len([x for x in lay if x[0] == "obj"]):
        return out
    kw = tp[0]
    d = _old_self.data
    p = _old_self.pos
    k = 0
    py3 = v >= (3, 0)
    for kind, fld in lay:
        if kind in ("i32", "i16"):
            w = 4 if kind == "i32" else 2
            want = le_s(d, p, w)
            arg = {"co_kwonlyargcount": "co_kwonlyargcount"}.get(fld, fld)
            if arg in kw:
                out.append(("field/%s" % fld, kw[arg] == want))
            p = p + w
        else:
            c = objs[k]
            k += 1
            out.append(("object-%s-read-at-the-right-position" % fld, SInt(_ie(c["_pos"])) == p))
            if fld == "co_code":
                out.append(("co_code-read-as-bytes", c["bytes_for_s"] is True))
            if fld == "co_consts":
                out.append(("co_consts-strings-are-bytes-iff-python3", c["bytes_for_s"] is (v > (3, 0))))
            arg = {"co_lnotab": "co_lnotab", "co_linetable": "co_lnotab"}.get(fld, fld)
            if fld not in ("co_localsplusnames", "co_localspluskinds") and arg in kw:
                out.append(("field/%s" % fld, kw[arg] is c["_result"]))
            p = SInt(END(_ie(c["_pos"]), _ie(c["_refs"])))
    out.append(("position-after-code-object", self.fp.pos == p))
    if v >= (3, 11):
        # localsplus split (bounded: two names): kind bits 0x20 local, 0x40 cell, 0x80 free
        names = objs[3]["_result"]
        kinds = objs[4]["_result"]
        k0, k1 = kinds.get(z3.IntVal(0)), kinds.get(z3.IntVal(1))
        def sel(mask_pred):
            r = []
            return r
        vn = kw["co_varnames"]
        cv = kw["co_cellvars"]
        fv = kw["co_freevars"]
        def expect(pred):
            # tuple of the names whose kind satisfies pred, in order (2 names -> 4 cases)
            a, b = pred(k0), pred(k1)
            return a, b
        la, lb_ = (k0 & 0x20) != 0, (k1 & 0x20) != 0
        ca, cb = (k0 & 0x40) != 0, (k1 & 0x40) != 0
        fa, fb = And((k0 & 0x20) == 0, (k0 & 0x40) == 0, (k0 & 0x80) != 0), And((k1 & 0x20) == 0, (k1 & 0x40) == 0, (k1 & 0x80) != 0)
        def tup_is(t, a, b):
            n0, n1 = names
            return And(Implies(And(a, b), len(t) == 2 and t[0] is n0 and t[1] is n1) if isinstance(t, tuple) else False,
                       Implies(And(a, Not(b)), len(t) == 1 and t[0] is n0), Implies(And(Not(a), b), len(t) == 1 and t[0] is n1),
                       Implies(And(Not(a), Not(b)), len(t) == 0))
        out.append(("co_varnames==locals-of-localsplus", tup_is(vn, la, lb_)))
        out.append(("co_cellvars==cells-of-localsplus", tup_is(cv, ca, cb)))
        out.append(("co_freevars==frees-of-localsplus", tup_is(fv, fa, fb)))
    if self.internObjects.tail:
        out.append(("ref-slot-reserved-before-fields", SInt(self.internObjects.tail[0][0]) == _old_self.nrefs))
        out.append(("ref-slot-holds-the-code-object", self.internObjects.tail[0][1] is result))
    return out


contract(CLS + "t_code", params={"self": Unmarshaller(), "save_ref": Bool()}, configs=code_configs, when=lambda self: False,
         requires=lambda self: self.fp.pos + 40 <= Len(self.fp.data),
         raises={__import__("struct").error: True},      # truncated stream after the sub-objects (robustness is C11's subject)
         ensures=code_post, no_native_replay=True)

ALL_CONTRACTS = CONTRACTS + ABSTRACT_READERS + [R_OBJECT_IN_CODE, TO_PORTABLE]
