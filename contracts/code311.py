"""Sidecar contracts for xdis/codetype/code311.py: 3.11+ location table -> co_lines() (C05, C17)."""
import z3
from pyvc.engine import Loop, HSymList, HList
from pyvc.types import Int, Bytes, BytesIter, OptInt, ForAll, Maker
from pyvc.sym import And, Or, Not, Implies, If, Len, SOpt, SInt, SBool, ZSeq, _ie
from contracts.common import Registry, IsNone, OptVal
from spec import loctable311 as T

R = Registry()
contract = R.contract
CONTRACTS = R.contracts
configs_for = R.configs_for

TAB = [0x80, 0x81, 0x87, 0xE8, 0xE9, 0xF0, 0xF1, 0xD8, 0xDA, 0xF8, 0xFF, 0x00, 0x01, 0x02, 0x3F, 0x40, 0x41, 0x7F, 0x05, 0xB1]


def _iter_effect(argname):
    def eff(eng, vals, result, exc):
        it = vals[argname]
        p = z3.Int(eng.fresh("pos"))
        eng.run.pc.append(z3.And(p >= _ie(it.pos), p <= it.seq.len_e()))
        it._pos = SInt(p)
    return eff


# _scan_varint: value and end position of the little-endian varint; domain: at most 5 bytes
contract(
    "xdis.codetype.code311:_scan_varint",
    params={"remaining_linetable": BytesIter(alphabet=TAB)},
    requires=lambda remaining_linetable: T.lev_len(remaining_linetable.data, remaining_linetable.pos) <= 5,
    ensures=lambda remaining_linetable, _old_remaining_linetable, result: [
        ("value", result == T.lev(_old_remaining_linetable.data, _old_remaining_linetable.pos, 0, 0)[0]),
        ("position", remaining_linetable.pos == T.lev(_old_remaining_linetable.data, _old_remaining_linetable.pos, 0, 0)[1]),
        ("non-negative", result >= 0)],
    result=Int(), effect=_iter_effect("remaining_linetable"),
    loops={0: Loop("for shift, read in enumerate(remaining_linetable)", unroll=5)},
    unfold_depth=7,
    native_post=lambda _old_remaining_linetable, remaining_linetable, result: [
        ("value", result == T.lev(_old_remaining_linetable.data, _old_remaining_linetable.pos, 0, 0)[0]),
        ("position", remaining_linetable.pos == T.lev(_old_remaining_linetable.data, _old_remaining_linetable.pos, 0, 0)[1])],
)

# _go_to_next_code_byte: skips to the next byte with bit 7 set
contract(
    "xdis.codetype.code311:_go_to_next_code_byte",
    params={"remaining_linetable": BytesIter(alphabet=TAB)},
    ensures=lambda remaining_linetable, _old_remaining_linetable, result: [
        ("none-iff-exhausted", IsNone(result) == (T.nxt_code(_old_remaining_linetable.data, _old_remaining_linetable.pos) >= Len(_old_remaining_linetable.data))),
        ("byte", Implies(Not(IsNone(result)), And(OptVal(result) == _old_remaining_linetable.data[T.nxt_code(_old_remaining_linetable.data, _old_remaining_linetable.pos)],
                                                  OptVal(result) >= 128, OptVal(result) <= 255))),
        ("position", remaining_linetable.pos == If(IsNone(result), Len(_old_remaining_linetable.data), T.nxt_code(_old_remaining_linetable.data, _old_remaining_linetable.pos) + 1))],
    result=OptInt(), effect=_iter_effect("remaining_linetable"),
    loops={0: Loop("while not _test_check_bit((code_byte := next(remaining_linetable)))",
                   invariant=lambda remaining_linetable, _old_remaining_linetable: And(
                       remaining_linetable.pos >= _old_remaining_linetable.pos,
                       T.nxt_code(remaining_linetable.data, remaining_linetable.pos) == T.nxt_code(_old_remaining_linetable.data, _old_remaining_linetable.pos)),
                   decreases=lambda remaining_linetable: Len(remaining_linetable.data) - remaining_linetable.pos)},
    native_post=lambda _old_remaining_linetable, remaining_linetable, result: [
        ("none-iff-exhausted", (result is None) == (T.nxt_code(_old_remaining_linetable.data, _old_remaining_linetable.pos) >= len(_old_remaining_linetable.data)))],
)


def ecol(entries, j):
    """column j of the list of LineTableEntry(line_delta, code_delta, no_line_flag)"""
    if isinstance(entries, HSymList):
        return entries.col(j)
    items = entries.items if isinstance(entries, HList) else list(entries)
    vals = [(e.line_delta, e.code_delta, e.no_line_flag)[j] for e in items]
    return ZSeq.of([(1 if v else 0) if isinstance(v, bool) else v for v in vals])


class EntryList(Maker):
    def __call__(self, eng, name):
        import xdis.codetype.code311 as M
        lst = HSymList(name, ["int", "int", "bool"], lambda c: M.LineTableEntry(line_delta=c[0], code_delta=c[1], no_line_flag=c[2]),
                       lambda v: [v.line_delta, v.code_delta, v.no_line_flag])
        eng.havoc_heap(lst, name, True)
        return lst, []


def FlagOf(entries, no_line_flag, k):
    return If(no_line_flag, 1, 0)


def total(linetable, first_lineno, w):
    ld, cd, fl = (T.ent_seq(linetable, 0, j) for j in range(3))
    return If(Len(ld) == 0, ZSeq(), T.mrg(ld, cd, fl, 1, 0, cd[0], first_lineno + ld[0], If(fl[0] != 0, 1, 0), w))


def enc(value):
    return (value[0], value[1], If(IsNone(value[2]), 1, 0), If(IsNone(value[2]), 0, OptVal(value[2])))


contract(
    "xdis.codetype.code311:parse_linetable",
    kind="generator",
    params={"linetable": Bytes(alphabet=TAB, maxlen=8), "first_lineno": Int(pool=[1, 7, 100, 0])},
    requires=lambda linetable: ForAll(lambda p: Implies(And(0 <= p, p <= Len(linetable)), T.lev_len(linetable, p) <= 5)),
    yield_seq=4, yield_encode=lambda value: enc(value),
    yields_eq=lambda linetable, first_lineno: tuple(total(linetable, first_lineno, w) for w in range(4)),
    native_yields=lambda linetable, first_lineno: T.co_lines(linetable, first_lineno),
    loops={0: Loop("while (code_byte := _go_to_next_code_byte(iter_linetable)) is not None",
                   havoc={"linetable_entries": EntryList()},
                   invariant=lambda linetable, iter_linetable, linetable_entries: And(*[
                       ecol(linetable_entries, j) + T.ent_seq(linetable, iter_linetable.pos, j) == T.ent_seq(linetable, 0, j) for j in range(3)]),
                   decreases=lambda iter_linetable: Len(iter_linetable.data) - iter_linetable.pos),
           1: Loop("for linetable_entry in remaining_entries",
                   invariant=lambda linetable, first_lineno, linetable_entries, code_start, code_end, line, no_line_flag, _k, _ys: And(*[
                       _ys[w] + T.mrg(ecol(linetable_entries, 0), ecol(linetable_entries, 1), ecol(linetable_entries, 2), _k + 1,
                                      code_start, code_end, line, FlagOf(linetable_entries, no_line_flag, _k), w) == total(linetable, first_lineno, w) for w in range(4)]))},
)


# ------------------------------------------------------------------------------------------------
# C17: decode_position_entry == the location-entry layout of Objects/locations.md (all five forms);
# StopIteration when the stream ends inside a one-line/short form; AssertionError on a malformed short form.
def entry_bytes_needed(code_byte):
    code = (code_byte >> 3) & 15
    return If(Or(code == 10, code == 11, code == 12), 2, If(code <= 9, 1, 0))


contract(
    "xdis.codetype.code311:decode_position_entry",
    params={"code_byte": Int(128, 255), "remaining_linetable": BytesIter(alphabet=TAB)},
    requires=lambda remaining_linetable: ForAll(lambda p: Implies(And(0 <= p, p <= Len(remaining_linetable.data)), T.lev_len(remaining_linetable.data, p) <= 5)),
    raises={StopIteration: lambda code_byte, _old_remaining_linetable: _old_remaining_linetable.pos + entry_bytes_needed(code_byte) > Len(_old_remaining_linetable.data),
            AssertionError: lambda code_byte, _old_remaining_linetable: And(((code_byte >> 3) & 15) <= 9, _old_remaining_linetable.pos < Len(_old_remaining_linetable.data),
                                                                             _old_remaining_linetable.data[_old_remaining_linetable.pos] >= 128)},
    ensures=lambda code_byte, remaining_linetable, _old_remaining_linetable, result: [
        ("line_delta", result.line_delta == T.pent(_old_remaining_linetable.data, _old_remaining_linetable.pos, code_byte, 0)),
        ("num_lines", result.num_lines == T.pent(_old_remaining_linetable.data, _old_remaining_linetable.pos, code_byte, 1)),
        ("column", result.column == T.pent(_old_remaining_linetable.data, _old_remaining_linetable.pos, code_byte, 2)),
        ("endcolumn", result.endcolumn == T.pent(_old_remaining_linetable.data, _old_remaining_linetable.pos, code_byte, 3)),
        ("no_line_flag", result.no_line_flag == (T.pent(_old_remaining_linetable.data, _old_remaining_linetable.pos, code_byte, 4) != 0)),
        ("code_delta", result.code_delta == ((code_byte & 7) + 1) * 2),
        ("position", remaining_linetable.pos == T.pent(_old_remaining_linetable.data, _old_remaining_linetable.pos, code_byte, 5))],
    native_post=lambda code_byte, remaining_linetable, _old_remaining_linetable, result: [
        ("fields", (result.line_delta, result.num_lines, result.column, result.endcolumn, 1 if result.no_line_flag else 0) ==
         tuple(T.pent(_old_remaining_linetable.data, _old_remaining_linetable.pos, code_byte, w) for w in range(5)))],
    unfold_depth=3,
)
