"""Sidecar contracts for xdis/marsh.py (C14, C13): the integer writers and readers of the portable marshaller.

Writers are verified against the byte sink they are given (`self._write`, a ghost z3 sequence of every byte
written so far): each writer appends exactly the little-endian words the marshal format defines, and what it
appends decodes (by the reader-side definition: two's-complement little-endian words, 15-bit digits in 16-bit
words with the digit count carrying the sign, top digit non-zero) to the integer it was given -- for every int,
of any size.  The readers (_r_short/_r_long/_r_long64 of the fast unmarshaller) are verified against the same
definition, so writer o reader = identity is a lemma over the two contracts.
"""
import struct
import z3
from pyvc.engine import Loop, SObj, HSink, HSymList, HList, Contract
from pyvc.types import Maker, Int, Bool, Const
from pyvc.sym import And, Or, Not, Implies, If, Len, SInt, SBool, ZSeq, _ie
from pyvc import sym
from pyvc.spec import spec, IntSeq, p2
from contracts.common import Registry
from spec import pyc_header as H

R = Registry()
contract = R.contract
CONTRACTS = R.contracts
configs_for = R.configs_for

M = "xdis.marsh:_Marshaller."


# ------------------------------------------------------------------------------------------------ spec
@spec(lemma=lambda r, x, k: Implies(x >= 0, r >= 0))
def shr15(x: int, k: int) -> int:
    """x >> (15 k) by repeated division"""
    if k <= 0:
        return x
    return shr15(x, k - 1) // 32768


@spec(lemma=lambda r, k: r >= 1)
def p15(k: int) -> int:
    """2 ** (15 k)"""
    if k <= 0:
        return 1
    return 32768 * p15(k - 1)


def dig(x, k):
    """k-th 15-bit digit of x >= 0"""
    return shr15(x, k) % 32768


@spec(lemma=lambda r, x, k: Implies(And(x >= 0, k >= 0), And(r >= 0, x == shr15(x, k) * p15(k) + r)))
def digsum(x: int, k: int) -> int:
    """value of the first k digits: sum dig(x, i) * 2**(15 i); the lemma is the positional-notation theorem
    x = (x >> 15k) * 2**(15k) + digsum(x, k), proved once by induction over k"""
    if k <= 0:
        return 0
    return digsum(x, k - 1) + (shr15(x, k - 1) % 32768) * p15(k - 1)


@spec
def digseq(x: int, k: int) -> IntSeq:
    """[dig(x, 0), ..., dig(x, k-1)]"""
    if k <= 0:
        return []
    return digseq(x, k - 1) + [shr15(x, k - 1) % 32768]


@spec
def enc16(ds: IntSeq, j: int) -> IntSeq:
    """the first j elements of ds as little-endian 16-bit words"""
    if j <= 0:
        return []
    return enc16(ds, j - 1) + [ds[j - 1] % 256, (ds[j - 1] // 256) % 256]


def le32(v):
    """little-endian two's-complement 32-bit word of v (any int: the low 32 bits)"""
    v = _ie(v) if not isinstance(v, int) else z3.IntVal(v)
    return [SInt(z3.simplify((v / (1 << (8 * j))) % 256)) for j in range(4)]


def _atoms(e, out):
    if z3.is_app(e) and e.decl().kind() == z3.Z3_OP_SEQ_CONCAT:
        for c in e.children():
            _atoms(c, out)
    elif z3.is_app(e) and e.decl().kind() == z3.Z3_OP_SEQ_EMPTY:
        pass
    else:
        out.append(e)
    return out


def seq_eq(a, b):
    """a == b for two concatenations: when both flatten to the same shape (units and opaque chunks at the same
    places) the equality is stated atom by atom, which keeps it out of the sequence solver"""
    from pyvc.sym import SBool
    xa, xb = _atoms(ZSeq.of(a).e, []), _atoms(ZSeq.of(b).e, [])
    if len(xa) == len(xb):
        parts = []
        for p, q in zip(xa, xb):
            pu = z3.is_app(p) and p.decl().kind() == z3.Z3_OP_SEQ_UNIT
            qu = z3.is_app(q) and q.decl().kind() == z3.Z3_OP_SEQ_UNIT
            if pu and qu:
                if not z3.simplify(p.arg(0)).eq(z3.simplify(q.arg(0))):
                    parts.append(p.arg(0) == q.arg(0))
            elif not pu and not qu and p.eq(q):
                continue
            else:
                parts = None
                break
        if parts is not None:
            return SBool(z3.And(*parts) if parts else z3.BoolVal(True))
    return ZSeq.of(a) == ZSeq.of(b)


def le_s(seq, p, n):
    v = H.le(seq, p, n)
    return If(v >= (1 << (8 * n - 1)), v - (1 << (8 * n)), v)


# ------------------------------------------------------------------------------------------------ objects
class Marshaller(Maker):
    def __call__(self, eng, name):
        import xdis.marsh as X
        out = z3.Const(name + ".out", z3.SeqSort(z3.IntSort()))
        sink = HSink(name + "._write", out)
        o = SObj(__class__=X._Marshaller, _write=sink, python_version=eng.entry_cfg.get("_python_version", (3, 8, 0)))
        return o, []

    def examples(self, rng, n):
        return [("__sink__",)]


def _run_writer(method, x, version=(3, 8, 0)):
    import xdis.marsh as X
    chunks = []
    m = X._Marshaller(chunks.append, version)
    getattr(m, method)(x)
    out = []
    for c in chunks:
        out.extend(ord(ch) for ch in c) if isinstance(c, str) else out.extend(c)
    return out


def _native_writer(method, expect):
    def check(config, inputs):
        x = inputs["x"]
        try:
            want = expect(x)
        except Exception:
            return None
        if want is None:
            return None
        try:
            got = _run_writer(method, x)
        except Exception as e:
            return {"violated": ["raises:%s" % type(e).__name__], "exception": repr(e)}
        return {"violated": [] if got == list(want) else ["bytes(%r != format %r)" % (got[:24], list(want)[:24])], "result": repr(got[:40])}
    return check


BIG = [0, 1, -1, 255, 256, 32767, 32768, -32768, 65535, 65536, 2 ** 31 - 1, 2 ** 31, -2 ** 31, -2 ** 31 - 1, 2 ** 32, 2 ** 45 - 1, 2 ** 45, -2 ** 63, 2 ** 63 - 1, 2 ** 64, 10 ** 30, -10 ** 30, 2 ** 300 + 12345]
EX_INT = {"x": lambda cfg, rng, n: BIG + [rng.randint(-2 ** 70, 2 ** 70) for _ in range(60)]}


def out_of(self):
    return self._write.out


# ------------------------------------------------------------------------------------------------ words
# call-site effects: the words are appended to the sink as concrete units (equivalent to the postcondition, but
# keeps long chains of writes syntactic for the sequence solver)
def _append_effect(words):
    def effect(eng, vals, result, exc):
        sink = vals["self"]._write
        for w in words(vals["x"]):
            sink.seq = z3.Concat(sink.seq, z3.Unit(z3.simplify(_ie(w))))
    return effect


contract(M + "w_long", params={"self": Marshaller(), "x": Int()}, effect=_append_effect(lambda x: le32(x)),
         ensures=lambda self, x, _old_self: [
             ("appends-4-bytes", out_of(self) == _old_self.out + le32(x)),
             ("reads-back", Implies(And(x >= -(1 << 31), x < (1 << 31)), le_s(out_of(self), Len(_old_self.out), 4) == x)),
             ("reads-back-unsigned", Implies(And(x >= 0, x < (1 << 32)), H.le(out_of(self), Len(_old_self.out), 4) == x))],
         examples=EX_INT,
         native_check=_native_writer("w_long", lambda x: struct.pack("<I", x & 0xFFFFFFFF)))

contract(M + "w_short", params={"self": Marshaller(), "x": Int()}, effect=_append_effect(lambda x: [SInt(_ie(x) % 256), SInt((_ie(x) / 256) % 256)]),
         ensures=lambda self, x, _old_self: [
             ("appends-2-bytes", out_of(self) == _old_self.out + [x % 256, (x // 256) % 256]),
             ("reads-back", Implies(And(x >= 0, x < 65536), H.le(out_of(self), Len(_old_self.out), 2) == x))],
         examples=EX_INT,
         native_check=_native_writer("w_short", lambda x: struct.pack("<H", x & 0xFFFF)))

contract(M + "w_long64", params={"self": Marshaller(), "x": Int()}, effect=_append_effect(lambda x: le32(x) + le32(SInt(_ie(x) / (1 << 32)))),
         ensures=lambda self, x, _old_self: [
             ("appends-8-bytes", out_of(self) == _old_self.out + le32(x) + le32(x // (1 << 32))),
             # the 64-bit value is stated through its two words (x == low + 2**32 * high, high signed): the same fact as
             # "the 8 bytes read back to x", in the form the arithmetic solver decides instantly
             ("reads-back-low-word", H.le(out_of(self), Len(_old_self.out), 4) == x % (1 << 32)),
             ("reads-back-high-word", Implies(And(x >= -(1 << 63), x < (1 << 63)), le_s(out_of(self), Len(_old_self.out) + 4, 4) == x // (1 << 32)))],
         examples=EX_INT,
         native_check=_native_writer("w_long64", lambda x: struct.pack("<Q", x & 0xFFFFFFFFFFFFFFFF)))

# dump_int is the Python 2 writer of machine ints ('i' when the value fits 32 bits, else 'I' + 64 bits)
contract(M + "dump_int", params={"self": Marshaller(), "x": Int(lo=-(1 << 63), hi=(1 << 63) - 1)},
         ensures=lambda self, x, _old_self: [
             ("int32", Implies(And(x >= -(1 << 31), x < (1 << 31)),
                               And(out_of(self) == _old_self.out + [ord("i")] + le32(x), le_s(out_of(self), Len(_old_self.out) + 1, 4) == x))),
             ("int64", Implies(Not(And(x >= -(1 << 31), x < (1 << 31))),
                               And(out_of(self) == _old_self.out + [ord("I")] + le32(x) + le32(x // (1 << 32)),
                                   H.le(out_of(self), Len(_old_self.out) + 1, 4) == x % (1 << 32),
                                   le_s(out_of(self), Len(_old_self.out) + 5, 4) == x // (1 << 32))))],
         examples=EX_INT,
         native_check=_native_writer("dump_int", lambda x: (b"i" + struct.pack("<i", x)) if -2 ** 31 <= x < 2 ** 31 else (b"I" + struct.pack("<q", x)) if -2 ** 63 <= x < 2 ** 63 else None))


# ------------------------------------------------------------------------------------------------ 'l'
class DigitList(Maker):
    def __call__(self, eng, name):
        lst = HSymList(name, ["int"], lambda c: c[0], lambda v: [v])
        eng.havoc_heap(lst, name, True)
        return lst, []


def dseq(digits):
    if isinstance(digits, HSymList):
        return digits.col(0)
    items = digits.items if isinstance(digits, HList) else list(digits)
    return ZSeq.of(items)


def dlen(digits):
    if isinstance(digits, HSymList):
        return digits.length
    return len(digits.items if isinstance(digits, HList) else digits)


def _absx(x):
    return If(x < 0, 0 - x, x)


def _long_bytes(x):
    """the marshal format's TYPE_LONG encoding of x (reference definition for replay)"""
    a = abs(x)
    ds = []
    while a:
        ds.append(a & 0x7FFF)
        a >>= 15
    n = len(ds) if x >= 0 else -len(ds)
    return b"l" + struct.pack("<i", n) + b"".join(struct.pack("<H", d) for d in ds)


def _dump_long_post(self, x, _old_self, _locals):
    ax = _absx(x)
    o = Len(_old_self.out)
    if "digits" not in _locals:
        # an exit that never built the digit list (a path the function does not have on the unchanged tree): the
        # property still demands the TYPE_LONG encoding, so the obligation is stated, fails, and its counter-model is
        # replayed against _long_bytes - never a KeyError in the checker
        return [("exit-without-digit-list-writes-TYPE_LONG", And(Len(out_of(self)) >= o + 5, out_of(self)[o] == ord("l"),
                                                                 shr15(ax, If(le_s(out_of(self), o + 1, 4) < 0, 0 - le_s(out_of(self), o + 1, 4), le_s(out_of(self), o + 1, 4))) == 0,
                                                                 Len(out_of(self)) == o + 5 + 2 * If(le_s(out_of(self), o + 1, 4) < 0, 0 - le_s(out_of(self), o + 1, 4), le_s(out_of(self), o + 1, 4))))]
    digits = _locals["digits"]
    n = dlen(digits)
    return [
        ("digits", dseq(digits) == digseq(ax, n)),
        ("all-digits-written", shr15(ax, n) == 0),
        ("normalised", Implies(n > 0, shr15(ax, n - 1) % 32768 != 0)),
        ("value", digsum(ax, n) == ax),
        ("stream", Implies(n < (1 << 31), out_of(self) == _old_self.out + [ord("l")] + le32(If(x < 0, 0 - n, n)) + enc16(dseq(digits), n))),
        ("count-reads-back", Implies(n < (1 << 31), le_s(out_of(self), o + 1, 4) == If(x < 0, 0 - n, n))),
    ]


contract(M + "dump_long", params={"self": Marshaller(), "x": Int()},
         ensures=_dump_long_post, unfold_depth=3,
         examples=EX_INT,
         native_check=_native_writer("dump_long", _long_bytes),
         loops={0: Loop("while x",
                        havoc={"digits": DigitList()},
                        invariant=lambda self, x, digits, _old_self, _old_x: And(
                            x >= 0,
                            x == shr15(_absx(_old_x), dlen(digits)),
                            dseq(digits) == digseq(_absx(_old_x), dlen(digits)),
                            Implies(dlen(digits) > 0, shr15(_absx(_old_x), dlen(digits) - 1) != 0),
                            out_of(self) == _old_self.out + [ord("l")]),
                        decreases=lambda x: x),
                1: Loop("for d in digits",
                        invariant=lambda self, x, digits, sign, _old_self, _old_x, _k: And(
                            out_of(self) == _old_self.out + [ord("l")] + le32(sign * dlen(digits)) + enc16(dseq(digits), _k)))})


# ------------------------------------------------------------------------------------------------ readers
class FastUnmarshaller(Maker):
    def __call__(self, eng, name):
        import xdis.marsh as X
        data, hs = sym.bytes_param(name + ".bufstr")
        p = z3.Int(name + ".bufpos")
        from pyvc.engine import HList as _HL
        o = SObj(__class__=X._FastUnmarshaller, bufstr=data, bufpos=SInt(p), _stringtable=_HL([]), python_version=None)
        return o, hs + [p >= 0]

    def examples(self, rng, n):
        out = []
        for _ in range(n):
            ln = rng.randint(0, 12)
            out.append(("__obj__", {"bufstr": bytes(rng.choice([0, 1, 0x7f, 0x80, 0xff, rng.randint(0, 255)]) for _ in range(ln)), "bufpos": rng.randint(0, 3)}))
        return out


def _native_reader(fname, width, fmt):
    def check(config, inputs):
        import xdis.marsh as X
        s = inputs["self"]
        buf, pos = bytes(s.bufstr), s.bufpos
        if pos + width > len(buf):
            return None
        um = X._FastUnmarshaller(buf)
        um.bufpos = pos
        try:
            got = getattr(X, fname)(um)
        except Exception as e:
            return {"violated": ["raises:%s" % type(e).__name__], "exception": repr(e)}
        want = struct.unpack_from(fmt, buf, pos)[0]
        bad = []
        if got != want:
            bad.append("value(%r != %r)" % (got, want))
        if um.bufpos != pos + width:
            bad.append("position")
        return {"violated": bad, "result": repr(got)}
    return check


def reader_contract(fname, width, fmt):
    contract("xdis.marsh:" + fname, params={"self": FastUnmarshaller()},
             requires=lambda self: self.bufpos + width <= Len(self.bufstr),
             ensures=lambda self, result, _old_self: [("value", result == le_s(_old_self.bufstr, _old_self.bufpos, width)),
                                                       ("position", self.bufpos == _old_self.bufpos + width)],
             native_check=_native_reader(fname, width, fmt))


reader_contract("_r_short", 2, "<h")
reader_contract("_r_long", 4, "<i")
reader_contract("_r_long64", 8, "<q")

ALL_CONTRACTS = list(CONTRACTS)


# ------------------------------------------------------------------------------------------------ 'f' / 'x': text floats
# The text itself is outside the model (an opaque chunk); what is proved is its provenance and framing: the chunk is
# repr(x) of the very argument (CPython's repr is the shortest text that reads back to the same double: trusted), preceded by
# a one-byte length that is the chunk's length, preceded by the type code.
from pyvc.engine import Opaque as _Opaque


class FloatArg(Maker):
    def __call__(self, eng, name):
        return _Opaque(name, float), []

    def examples(self, rng, n):
        return [0.0, -0.0, 1.5, 0.1 + 0.2, 1.7976931348623157e+308, 5e-324, float("inf"), float("-inf"), 1e22, 1.0 / 3.0, 123456789.12345678]


def _chunk_of(_engine, pred):
    for v, sq in getattr(_engine, "opaque_seqs", {}).values():
        if pred(v):
            return v, ZSeq(sq)
    return None, None


def _float_post(self, x, _old_self, _engine):
    v, chunk = _chunk_of(_engine, lambda o: o.tag == "repr" and o.src and o.src[0] is x)
    if v is None:
        return [("the text written is repr(x) of the argument", False)]
    ln = _engine.opaque_lens.get(id(v))
    if ln is None:
        return [("the length byte is len(repr(x))", False)]
    return [("stream", out_of(self) == _old_self.out + [ord("f")] + [ln[1]] + chunk),
            ("length-fits-one-byte", And(ln[1] >= 0, ln[1] < 256))]


def _native_float(config, inputs):
    import marshal
    x = inputs["x"]
    if not isinstance(x, float):
        return None
    try:
        got = bytes(_run_writer("dump_float", x))
    except Exception as e:
        return {"violated": ["raises:%s" % type(e).__name__], "exception": repr(e)}
    back = marshal.loads(got)
    ok = isinstance(back, float) and struct.pack("<d", back) == struct.pack("<d", x)
    return {"violated": [] if ok else ["marshal.loads(%r) == %r, not %r" % (got, back, x)], "result": repr(got)}


contract(M + "dump_float", params={"self": Marshaller(), "x": FloatArg()}, ensures=_float_post, native_check=_native_float)

ALL_CONTRACTS = list(CONTRACTS)
