"""Sidecar contracts for xdis/cross_dis.py."""
from pyvc.engine import Contract, Loop
from pyvc.types import Int, Bytes, Record, Const, ForAll, Bool
from pyvc.sym import And, Or, Not, Implies, If, Len, SOpt, SBool, SInt
from spec import lnotab as L

CONTRACTS = []
CONFIGS = {}


def contract(*a, **k):
    configs = k.pop("configs", None)
    c = Contract(*a, **k)
    CONTRACTS.append(c)
    if configs is not None:
        CONFIGS[c.target + "#" + str(len(CONTRACTS))] = configs
        c._configs = configs
    return c


def configs_for(c):
    cf = getattr(c, "_configs", None) or {"": {}}
    return cf() if callable(cf) else cf


def IsNone(x):
    if isinstance(x, SOpt):
        return SBool(x.isnone)
    return x is None


def OptVal(x):
    if isinstance(x, SOpt):
        return SInt(x.val)
    return 0 if x is None else x


# ------------------------------------------------------------------------------------------------
# C05: findlinestarts, co_lnotab branch (code objects without co_lines: 1.5 .. 3.9).
# Whole yielded sequence == what the matching CPython's dis.findlinestarts yields (spec/lnotab.py).
LN_VERSIONS = {"None": None, "2.7": (2, 7), "3.5": (3, 5), "3.6": (3, 6), "3.7": (3, 7), "3.8": (3, 8), "3.9": (3, 9), "1.5": (1, 5), "3.0": (3, 0)}


def _ln_expected(code, version_tuple, which):
    signed, cut = L.version_flags(version_tuple)
    return L.ln_out(code.co_lnotab, Len(code.co_code), 0, 0, code.co_firstlineno, False, 0, signed, cut, which)


contract(
    "xdis.cross_dis:findlinestarts",
    kind="generator",
    when=lambda code: not hasattr(code, "co_lines"),
    params={"code": Record(co_lnotab=Bytes(maxlen=8), co_firstlineno=Int(pool=[1, 0, 5, 200, -3]), co_code=Bytes(maxlen=6))},
    configs=dict((k, {"version_tuple": v, "dup_lines": False}) for k, v in LN_VERSIONS.items()),
    yield_seq=2,
    yields_eq=lambda code, version_tuple: (_ln_expected(code, version_tuple, 0), _ln_expected(code, version_tuple, 1)),
    native_yields=lambda code, version_tuple: L.ln_starts(code.co_lnotab, code.co_firstlineno, len(code.co_code), *L.version_flags(version_tuple)),
    loops={2: Loop("for byte_incr, line_delta in zip(byte_increments, line_deltas)",
                   invariant=lambda code, version_tuple, offset, lineno, lastlineno, _k, _ys: And(
                       _ys[0] + L.ln_out(code.co_lnotab, Len(code.co_code), _k, offset, lineno, Not(IsNone(lastlineno)), OptVal(lastlineno),
                                         L.version_flags(version_tuple)[0], L.version_flags(version_tuple)[1], 0)
                       == _ln_expected(code, version_tuple, 0),
                       _ys[1] + L.ln_out(code.co_lnotab, Len(code.co_code), _k, offset, lineno, Not(IsNone(lastlineno)), OptVal(lastlineno),
                                         L.version_flags(version_tuple)[0], L.version_flags(version_tuple)[1], 1)
                       == _ln_expected(code, version_tuple, 1)))},
)


# ------------------------------------------------------------------------------------------------
# C15: xstack_effect(op, opc, oparg) == CPython's dis.stack_effect(op, oparg) for every opcode of every
# table that has an interpreter reference (3.6 - 3.13), for *all* operands 0 <= oparg < 2**30; where
# CPython raises (no value) there is no demand.
from spec import stack_effect as SE, reftables as RT
from contracts.common import tables, REF
from pyvc.types import OneOf


def se_tables():
    out = {}
    for lb, m in tables().items():
        if m.is_pypy:
            continue
        ver = "%d.%d" % tuple(m.version_tuple[:2])
        o = RT.oracle(ver)
        if o is None or not o.get("stack_effect"):
            continue
        out[lb] = {"opc": m, "jump": None}
    return out


def se_opcodes(opc):
    ver = "%d.%d" % tuple(opc.version_tuple[:2])
    forms, unfit = SE.forms(ver)
    om = RT.oracle(ver)["opcode"]["opmap"]
    return sorted((om[n], n) for n in forms if om[n] < 256)


class Opcode(OneOf):
    """one concrete opcode of the table under verification (the engine forks over all of them)"""
    def __init__(self):
        self.alts = ()

    def __call__(self, eng, name):
        opc = eng.entry_cfg["opc"]
        self.alts = tuple(k for k, _ in se_opcodes(opc))
        return OneOf.__call__(self, eng, name)

    def examples(self, rng, n):
        return list(range(0, 256))


def se_post(opcode, opc, oparg, result):
    ver = "%d.%d" % tuple(opc.version_tuple[:2])
    forms, unfit = SE.forms(ver)
    inv = dict((k, n) for k, n in se_opcodes(opc))
    name = inv.get(opcode)
    if name is None:
        return []
    desc, fn, domain, errs = forms[name]
    want = fn(oparg)
    ok = (result == want) if result is not None else False
    if domain == "noarg":
        return [("effect/%s" % name, Implies(oparg == 0, ok))]
    defined = And(*[oparg != e for e in errs]) if errs else True
    return [("effect/%s" % name, Implies(defined, ok))]


contract(
    "xdis.cross_dis:xstack_effect",
    configs=se_tables,
    params={"opcode": Opcode(), "oparg": Int(0, SE.MAX_DEFINED - 1)},
    ensures=se_post,
    native_post=se_post,
)
