"""Sidecar contracts for xdis/cross_dis.py."""
from pyvc.engine import Contract, Loop
from pyvc.types import Int, Bytes, Record, Const, ForAll, Bool
from pyvc.sym import And, Or, Not, Implies, If, Len, SOpt, SBool, SInt
from spec import lnotab as L

CONTRACTS = []
CONFIGS = {}


def contract(*a, **k):
    configs = k.pop("configs", None)
    c = Contract(*a, **k)
    CONTRACTS.append(c)
    if configs is not None:
        CONFIGS[c.target + "#" + str(len(CONTRACTS))] = configs
        c._configs = configs
    return c


def configs_for(c):
    return getattr(c, "_configs", None) or {"": {}}


def IsNone(x):
    if isinstance(x, SOpt):
        return SBool(x.isnone)
    return x is None


def OptVal(x):
    if isinstance(x, SOpt):
        return SInt(x.val)
    return 0 if x is None else x


# ------------------------------------------------------------------------------------------------
# C05: findlinestarts, co_lnotab branch (code objects without co_lines: 1.5 .. 3.9).
# Whole yielded sequence == what the matching CPython's dis.findlinestarts yields (spec/lnotab.py).
LN_VERSIONS = {"None": None, "2.7": (2, 7), "3.5": (3, 5), "3.6": (3, 6), "3.7": (3, 7), "3.8": (3, 8), "3.9": (3, 9), "1.5": (1, 5), "3.0": (3, 0)}


def _ln_expected(code, version_tuple, which):
    signed, cut = L.version_flags(version_tuple)
    return L.ln_out(code.co_lnotab, Len(code.co_code), 0, 0, code.co_firstlineno, False, 0, signed, cut, which)


contract(
    "xdis.cross_dis:findlinestarts",
    kind="generator",
    params={"code": Record(co_lnotab=Bytes(maxlen=8), co_firstlineno=Int(pool=[1, 0, 5, 200, -3]), co_code=Bytes(maxlen=6))},
    configs=dict((k, {"version_tuple": v, "dup_lines": False}) for k, v in LN_VERSIONS.items()),
    yield_seq=2,
    yields_eq=lambda code, version_tuple: (_ln_expected(code, version_tuple, 0), _ln_expected(code, version_tuple, 1)),
    native_yields=lambda code, version_tuple: L.ln_starts(code.co_lnotab, code.co_firstlineno, len(code.co_code), *L.version_flags(version_tuple)),
    loops={2: Loop("for byte_incr, line_delta in zip(byte_increments, line_deltas)",
                   invariant=lambda code, version_tuple, offset, lineno, lastlineno, _k, _ys: And(
                       _ys[0] + L.ln_out(code.co_lnotab, Len(code.co_code), _k, offset, lineno, Not(IsNone(lastlineno)), OptVal(lastlineno),
                                         L.version_flags(version_tuple)[0], L.version_flags(version_tuple)[1], 0)
                       == _ln_expected(code, version_tuple, 0),
                       _ys[1] + L.ln_out(code.co_lnotab, Len(code.co_code), _k, offset, lineno, Not(IsNone(lastlineno)), OptVal(lastlineno),
                                         L.version_flags(version_tuple)[0], L.version_flags(version_tuple)[1], 1)
                       == _ln_expected(code, version_tuple, 1)))},
)
