"""Sidecar contracts for xdis/unmarshal.py (C01, C10): the pure-Python unmarshaller follows the structure of the
marshal format (spec/marshal_fmt.py) for every input: dispatch by type code, field widths and signedness,
child count and order, the reference-table discipline (slot index = number of FLAG_REF objects before it,
reserved before the children, filled with the finished object), interned-string table, bytes_for_s propagation.

Sub-objects are abstract: OBJ(p, r, b) is "the object the format defines at stream position p with r references
already recorded, read with bytes_for_s = b"; END(p, r) the position after it and NREF(p, r) the number of
references after it.  The readers are proved to produce exactly the objects / positions / table states that the
format's structure defines in terms of OBJ / END / NREF of their children (modular induction; termination is C11's).
"""
import z3
from pyvc.engine import HList, handle_seq_of_list, pair_seq_of_dict, Loop, SObj, Opaque, HFile, HRefTable, STupleSeq, PyLong, Contract
from pyvc.types import Maker, Int, Bool, Const
from pyvc.sym import And, Or, Not, Implies, If, Len, SInt, SBool, SEnum, ZSeq, _ie, _be, is_sym
from pyvc import sym
from pyvc.spec import spec, Bytes, IntSeq
from contracts.common import Registry
from spec import marshal_fmt as M, pyc_header as H

R = Registry()
contract = R.contract
CONTRACTS = R.contracts
configs_for = R.configs_for

CLS = "xdis.unmarshal:_VersionIndependentUnmarshaller."
I = z3.IntSort()
OBJ = z3.Function("OBJ", I, I, I, I)
END = z3.Function("END", I, I, I)
NREF = z3.Function("NREF", I, I, I)


def obj(p, r, b):
    return SInt(OBJ(_ie(p), _ie(r), _ie(b)))


def end(p, r):
    return SInt(END(_ie(p), _ie(r)))


def nref(p, r):
    return SInt(NREF(_ie(p), _ie(r)))


def B01(b):
    """bytes_for_s flag as 0/1"""
    if isinstance(b, bool):
        return 1 if b else 0
    return If(b, 1, 0)


MAGIC_CLASSES = {"1.0": 39170, "1.3": 11913, "1.5": 20121, "2.1": 60202, "2.2": 60717, "2.3": 62011, "2.4": 62061, "2.5": 62131, "2.7": 62211,
                 "3.0": 3131, "3.3": 3230, "3.4": 3310, "3.6": 3379, "3.7": 3394, "3.8": 3413, "3.10": 3439, "3.11": 3495, "3.12": 3531, "3.13": 3571}


class Unmarshaller(Maker):
    """an unmarshaller object in the middle of a stream: symbolic file + position, reference tables with
    unknown history"""
    def __call__(self, eng, name):
        import io
        import xdis.unmarshal as U
        mi = eng.entry_cfg.get("_magic", 3413)
        real = U._VersionIndependentUnmarshaller(io.BytesIO(b""), mi, False, {})
        data, hs = sym.bytes_param(name + ".data")
        p = z3.Int(name + ".pos")
        n1 = z3.Int(name + ".nrefs")
        n2 = z3.Int(name + ".nstrs")
        fp = HFile(data, SInt(p))
        from pyvc.interp import _LocalDict
        vt = eng.entry_cfg.get("_version_tuple", real.version_tuple)
        o = SObj(__class__=U._VersionIndependentUnmarshaller, fp=fp, magic_int=mi, bytes_for_s=False, code_objects=_LocalDict(),
                 marshal_version=real.marshal_version, internStrings=HRefTable("strs", n2), internObjects=HRefTable("refs", n1),
                 version_tuple=vt, is_graal=False, is_pypy=False)
        return o, hs + [p >= 0, p <= data.len_e(), n1 >= 0, n2 >= 0]


def um_snapshot(self):
    return SObj(pos=self.fp.pos, data=self.fp.data, nrefs=self.internObjects.length, nstrs=self.internStrings.length)


# ------------------------------------------------------------------------------------------------
# abstract contract of r_object at call sites: the modular induction hypothesis
def _r_object_effect(eng, vals, result, exc):
    self = vals["self"]
    fp = self.fp
    p0, r0 = fp.pos, self.internObjects.length
    b = B01(vals.get("bytes_for_s", False))
    p1 = z3.Int(eng.fresh("pos"))
    fp._pos = SInt(p1)
    grow = z3.Int(eng.fresh("newrefs"))
    self.internObjects.extra = z3.simplify(self.internObjects.extra + grow)
    eng.run.pc.extend([p1 == END(_ie(p0), _ie(r0)), p1 > _ie(p0), p1 <= fp.seq.len_e(), grow >= 0,
                       _ie(self.internObjects.length) == NREF(_ie(p0), _ie(r0)),
                       _ie(result) == OBJ(_ie(p0), _ie(r0), _ie(b))])


R_OBJECT_ABSTRACT = Contract(CLS + "r_object", name=CLS + "r_object/abstract", result=Int(), effect=_r_object_effect,
                             note="induction hypothesis: sub-objects are abstract (OBJ/END/NREF)")


# ------------------------------------------------------------------------------------------------
# C10 scalars
def le_s(data, p, n):
    v = H.le(data, p, n)
    return If(v >= (1 << (8 * n - 1)), v - (1 << (8 * n)), v)


def ref_post(self, _old, result_val, save_ref):
    """r_ref discipline for scalars: appended iff save_ref, at index = old length"""
    t = self.internObjects
    return [("ref-count", t.length == _old.nrefs + If(save_ref, 1, 0))]


class OldState(Maker):
    pass


def scalar_contract(name, width, signed=True):
    def post(self, save_ref, result, _old_self):
        p0 = _old_self.pos
        out = [("value", (result.v if isinstance(result, PyLong) else result) == (le_s(_old_self.data, p0, width) if signed else H.le(_old_self.data, p0, width))),
               ("position", self.fp.pos == p0 + width),
               ("ref-count", self.internObjects.length == _old_self.nrefs + If(save_ref, 1, 0))]
        if self.internObjects.tail:
            out.append(("ref-slot", And(SInt(self.internObjects.tail[-1][0]) == _old_self.nrefs, self.internObjects.tail[-1][1] is result)))
        return out
    contract(CLS + name, params={"self": Unmarshaller(), "save_ref": Bool()}, configs={"": {"bytes_for_s": False}},
             requires=lambda self: self.fp.pos + width <= Len(self.fp.data),
             ensures=post, no_native_replay=True)


def snap(self):
    return um_snapshot(self)


scalar_contract("t_int32", 4)
scalar_contract("t_int64", 8)


# ------------------------------------------------------------------------------------------------
# 'l': arbitrary precision ints (15-bit digits, little-endian 16-bit words), sign = sign of the count
from pyvc.spec import p2


@spec
def long_acc(data: Bytes, p: int, j: int) -> int:
    """sum of the first j digits: digit_k * 2**(15 k)"""
    if j <= 0:
        return 0
    return long_acc(data, p, j - 1) + (data[p + 2 * j - 2] + data[p + 2 * j - 1] * 256) * p2(15 * (j - 1))


def digits_valid(self):
    """valid marshal data: every 15-bit digit is stored in a 16-bit word < 2**15 (marshal.c rejects others)"""
    from pyvc.types import ForAll
    d, p = self.fp.data, self.fp.pos
    return ForAll(lambda k: Implies(And(0 <= k, p + 4 + 2 * k + 1 < Len(d)), d[p + 4 + 2 * k + 1] < 128))


def long_post(self, save_ref, result, _old_self, _engine):
    p0, d = _old_self.pos, _old_self.data
    n = le_s(d, p0, 4)
    size = If(n < 0, 0 - n, n)
    mag = long_acc(d, p0 + 4, size)
    val = result.v if isinstance(result, PyLong) else result
    py3 = _engine.entry_cfg["_py3"]
    return [("value", val == If(n < 0, 0 - mag, mag)), ("position", self.fp.pos == p0 + 4 + 2 * size),
            ("kind", isinstance(result, PyLong) != py3),
            ("ref-count", self.internObjects.length == _old_self.nrefs + If(save_ref, 1, 0))]


contract(CLS + "t_long", params={"self": Unmarshaller(), "save_ref": Bool()},
         configs={"py3": {"bytes_for_s": False, "_magic": 3413, "_py3": True}, "py2": {"bytes_for_s": False, "_magic": 62211, "_py3": False}},
         requires=lambda self: And(self.fp.pos + 4 <= Len(self.fp.data),
                                   self.fp.pos + 4 + 2 * If(le_s(self.fp.data, self.fp.pos, 4) < 0, 0 - le_s(self.fp.data, self.fp.pos, 4), le_s(self.fp.data, self.fp.pos, 4)) <= Len(self.fp.data),
                                   digits_valid(self)),
         ensures=long_post, no_native_replay=True,
         loops={0: Loop("for j in range(0, size)",
                        invariant=lambda self, _old_self, d, size, n, _k: And(
                            self.fp.pos == _old_self.pos + 4 + 2 * _k,
                            (d.v if isinstance(d, PyLong) else d) == long_acc(_old_self.data, _old_self.pos + 4, _k),
                            self.internObjects.length == _old_self.nrefs))})


# ------------------------------------------------------------------------------------------------
# length-prefixed payloads: 's' 't' 'u' 'a' 'A' 'z' 'Z'
def payload_of(v, _engine):
    """(start position, length) of the file bytes a value was made from, or None"""
    src = v
    if isinstance(v, Opaque) and v.src is not None:
        src = v.src[0]
    o = getattr(_engine, "origins", {}).get(id(src))
    if o is None:
        return None
    seq, (fp, start) = o
    return SInt(_ie(start)), (SInt(seq.len_e()) if not isinstance(seq.length, int) else seq.length)


def string_contract(name, code, text):
    width, interned = M.STRINGS[code]

    def size_of(d, p):
        return le_s(d, p, 4) if width == 4 else d[p]

    def post(self, save_ref, bytes_for_s, result, _old_self, _engine):
        p0, d = _old_self.pos, _old_self.data
        size = size_of(d, p0)
        out = [("position", self.fp.pos == p0 + width + size),
               ("ref-count", self.internObjects.length == _old_self.nrefs + If(save_ref, 1, 0)),
               ("interned-count", self.internStrings.length == _old_self.nstrs + (1 if interned else 0))]
        pl = payload_of(result, _engine)
        out.append(("payload-is-the-bytes-after-the-length", pl is not None and And(pl[0] == p0 + width, pl[1] == size)))
        if text is True:
            out.append(("kind-text", isinstance(result, Opaque) and result.pytype is str))
        elif text is False:
            out.append(("kind", Implies(bytes_for_s, True) if not isinstance(bytes_for_s, bool) else
                        ((not isinstance(result, Opaque)) if bytes_for_s else (isinstance(result, Opaque) and result.pytype is str))))
        if interned and self.internStrings.tail:
            out.append(("interned-slot", And(SInt(self.internStrings.tail[-1][0]) == _old_self.nstrs, self.internStrings.tail[-1][1] is result)))
        if self.internObjects.tail:
            out.append(("ref-slot", And(SInt(self.internObjects.tail[-1][0]) == _old_self.nrefs, self.internObjects.tail[-1][1] is result)))
        return out
    cfgs = {"bytes_for_s=False": {"bytes_for_s": False, "_magic": 3413}, "bytes_for_s=True": {"bytes_for_s": True, "_magic": 3413}}
    if name == "t_unicode":
        cfgs = {"py3": {"bytes_for_s": False, "_magic": 3413, "_version_tuple": (3, 8)}}
    contract(CLS + name, params={"self": Unmarshaller(), "save_ref": Bool()}, configs=cfgs,
             requires=lambda self: And(self.fp.pos + width <= Len(self.fp.data), size_of(self.fp.data, self.fp.pos) >= 0,
                                       self.fp.pos + width + size_of(self.fp.data, self.fp.pos) <= Len(self.fp.data)),
             ensures=post, no_native_replay=True)


string_contract("t_string", "s", False)
string_contract("t_interned", "t", True)
string_contract("t_ASCII", "a", True)
string_contract("t_ASCII_interned", "A", True)
string_contract("t_short_ASCII", "z", True)
string_contract("t_short_ASCII_interned", "Z", True)
string_contract("t_unicode", "u", True)


# ------------------------------------------------------------------------------------------------
# references
contract(CLS + "t_object_reference", params={"self": Unmarshaller()}, configs={"": {"bytes_for_s": False, "save_ref": None}},
         requires=lambda self: And(self.fp.pos + 4 <= Len(self.fp.data), le_s(self.fp.data, self.fp.pos, 4) >= 0,
                                   le_s(self.fp.data, self.fp.pos, 4) < self.internObjects.length),
         ensures=lambda self, result, _old_self: [
             ("entry", result == SInt(z3.Function("REF!refs", I, I)(_ie(le_s(_old_self.data, _old_self.pos, 4))))),
             ("position", self.fp.pos == _old_self.pos + 4), ("table-unchanged", self.internObjects.length == _old_self.nrefs)],
         no_native_replay=True)

contract(CLS + "t_python2_string_reference", params={"self": Unmarshaller()}, configs={"": {"bytes_for_s": False, "save_ref": False, "_magic": 62211}},
         requires=lambda self: And(self.fp.pos + 4 <= Len(self.fp.data), le_s(self.fp.data, self.fp.pos, 4) >= 0,
                                   le_s(self.fp.data, self.fp.pos, 4) < self.internStrings.length),
         ensures=lambda self, result, _old_self: [
             ("entry", result == SInt(z3.Function("REF!strs", I, I)(_ie(le_s(_old_self.data, _old_self.pos, 4))))),
             ("position", self.fp.pos == _old_self.pos + 4), ("table-unchanged", self.internStrings.length == _old_self.nstrs)],
         no_native_replay=True)


# ------------------------------------------------------------------------------------------------
# counted containers: ')' '(' '<' '>'
@spec
def children(p: int, r: int, b: int, n: int) -> IntSeq:
    """handles of n consecutive sub-objects starting at position p with r references recorded"""
    if n <= 0:
        return []
    return [OBJ(p, r, b)] + children(END(p, r), NREF(p, r), b, n - 1)


@spec
def chend(p: int, r: int, n: int, which: int) -> int:
    """position (which == 0) / reference count (which == 1) after n consecutive sub-objects"""
    if n <= 0:
        return p if which == 0 else r
    return chend(END(p, r), NREF(p, r), n - 1, which)


def TS(v):
    if isinstance(v, HList):
        return handle_seq_of_list(v)
    if isinstance(v, (frozenset, set)) and len(v) == 0:
        return ZSeq()
    if isinstance(v, Opaque) and isinstance(v.src, STupleSeq):
        return v.src.seq
    return STupleSeq.of(v).seq


def container_contract(name, code, result_type):
    width, _ = M.CONTAINERS[code]

    def count_of(d, p):
        return le_s(d, p, 4) if width == 4 else d[p]

    def post(self, save_ref, bytes_for_s, result, _old_self):
        p0, d, r0 = _old_self.pos, _old_self.data, _old_self.nrefs
        n = count_of(d, p0)
        r1 = r0 + If(save_ref, 1, 0)
        b = B01(bytes_for_s)
        out = [("children", TS(result) == children(p0 + width, r1, b, n)),
               ("position", self.fp.pos == chend(p0 + width, r1, n, 0)),
               ("ref-count", self.internObjects.length == chend(p0 + width, r1, n, 1)),
               ("kind", isinstance(result, HList) if result_type is list else (isinstance(result, result_type) or (isinstance(result, Opaque) and result.pytype is result_type)) if result_type is not tuple else not isinstance(result, (Opaque, set, frozenset, HList)))]
        if self.internObjects.tail:
            out.append(("ref-slot-reserved-before-children", SInt(self.internObjects.tail[0][0]) == r0))
            out.append(("ref-slot-holds-the-finished-object", self.internObjects.tail[0][1] is result))
        return out

    def inv(self, _old_self, ret, bytes_for_s, save_ref, **kw):
        pass
    cntvar = {"t_small_tuple": "tuplesize", "t_tuple": "tuplesize", "t_frozenset": "setsize", "t_set": "setsize", "t_list": "n"}[name]

    def invariant_fn(self, _old_self, ret, bytes_for_s, save_ref, cnt):
        p0, d, r0 = _old_self.pos, _old_self.data, _old_self.nrefs
        n = count_of(d, p0)
        r1 = r0 + If(save_ref, 1, 0)
        b = B01(bytes_for_s)
        return And(cnt <= n, Or(cnt >= 0, n < 0),
                   TS(ret) + children(self.fp.pos, self.internObjects.length, b, cnt) == children(p0 + width, r1, b, n),
                   chend(self.fp.pos, self.internObjects.length, cnt, 0) == chend(p0 + width, r1, n, 0),
                   chend(self.fp.pos, self.internObjects.length, cnt, 1) == chend(p0 + width, r1, n, 1))
    import inspect
    src = "lambda self, _old_self, ret, bytes_for_s, save_ref, %s: _f(self, _old_self, ret, bytes_for_s, save_ref, %s)" % (cntvar, cntvar)
    inv_l = eval(src, {"_f": invariant_fn})
    dec_l = eval("lambda %s: %s + 1" % (cntvar, cntvar))
    contract(CLS + name, params={"self": Unmarshaller(), "save_ref": Bool()},
             configs={"bytes_for_s=False": {"bytes_for_s": False, "_magic": 3413}, "bytes_for_s=True": {"bytes_for_s": True, "_magic": 3413}},
             requires=lambda self: self.fp.pos + width <= Len(self.fp.data),
             ensures=post, no_native_replay=True,
             loops={0: Loop("while %s > 0" % cntvar, invariant=inv_l, decreases=dec_l)})


container_contract("t_small_tuple", ")", tuple)
container_contract("t_tuple", "(", tuple)
container_contract("t_frozenset", ">", frozenset)
container_contract("t_set", "<", set)
# '[': the list is registered in the reference table *before* its children are read and then extended in place, so
# the slot holds the finished object by aliasing (HHandleList: a list of handles of symbolic length)
container_contract("t_list", "[", list)

# ------------------------------------------------------------------------------------------------
# '{': key/value pairs up to the first NULL ('0') key (or NULL value); None is an ordinary key or value
ISNONE = z3.Function("ISNONE", I, I)     # 1 iff the abstract object is None
ISNULL = z3.Function("ISNULL", I, I)     # 1 iff the abstract object is the NULL marker (TYPE_NULL), else 0


@spec
def dpairs(p: int, r: int, b: int) -> IntSeq:
    """handles key, value, key, value ... of the dict body at position p (definitional unfolding only: the format,
    not this function, bounds the recursion)"""
    if ISNULL(OBJ(p, r, b)) == 1:
        return []
    if ISNULL(OBJ(END(p, r), NREF(p, r), b)) == 1:
        return []
    return [OBJ(p, r, b), OBJ(END(p, r), NREF(p, r), b)] + dpairs(END(END(p, r), NREF(p, r)), NREF(END(p, r), NREF(p, r)), b)


@spec
def dend(p: int, r: int, b: int, which: int) -> int:
    """position (which == 0) / reference count (which == 1) after the dict body at position p"""
    if ISNULL(OBJ(p, r, b)) == 1:
        return END(p, r) if which == 0 else NREF(p, r)
    if ISNULL(OBJ(END(p, r), NREF(p, r), b)) == 1:
        return END(END(p, r), NREF(p, r)) if which == 0 else NREF(END(p, r), NREF(p, r))
    return dend(END(END(p, r), NREF(p, r)), NREF(END(p, r), NREF(p, r)), b, which)


def _null_identity(eng, handle, other):
    import xdis.unmarshal as U
    if other is U.NULL and isinstance(handle, SInt):
        return SBool(ISNULL(_ie(handle)) == 1)
    if other is None and isinstance(handle, SInt):
        # an abstract sub-object may well be None (TYPE_NONE): never decided by the abstraction
        return SBool(ISNONE(_ie(handle)) == 1)
    return None


def _dict_post(self, save_ref, bytes_for_s, result, _old_self):
    p0, r0 = _old_self.pos, _old_self.nrefs
    r1 = r0 + If(save_ref, 1, 0)
    b = B01(bytes_for_s)
    out = [("pairs", pair_seq_of_dict(result) == dpairs(p0, r1, b)),
           ("position", self.fp.pos == dend(p0, r1, b, 0)),
           ("ref-count", self.internObjects.length == dend(p0, r1, b, 1))]
    if self.internObjects.tail:
        out.append(("ref-slot-reserved-before-children", SInt(self.internObjects.tail[0][0]) == r0))
        out.append(("ref-slot-holds-the-finished-object", self.internObjects.tail[0][1] is result))
    return out


contract(CLS + "t_dict", params={"self": Unmarshaller(), "save_ref": Bool()},
         configs={"bytes_for_s=False": {"bytes_for_s": False, "_magic": 3413}, "bytes_for_s=True": {"bytes_for_s": True, "_magic": 3413}},
         ensures=_dict_post, no_native_replay=True, handle_is=_null_identity, handle_dicts=True,
         note="termination of the pair loop is not proved (while True: ends at the first NULL the stream holds; C11 bounds it)",
         loops={0: Loop("while True",
                        invariant=lambda self, _old_self, ret, bytes_for_s, save_ref: And(
                            pair_seq_of_dict(ret) + dpairs(self.fp.pos, self.internObjects.length, B01(bytes_for_s)) == dpairs(_old_self.pos, _old_self.nrefs + If(save_ref, 1, 0), B01(bytes_for_s)),
                            dend(self.fp.pos, self.internObjects.length, B01(bytes_for_s), 0) == dend(_old_self.pos, _old_self.nrefs + If(save_ref, 1, 0), B01(bytes_for_s), 0),
                            dend(self.fp.pos, self.internObjects.length, B01(bytes_for_s), 1) == dend(_old_self.pos, _old_self.nrefs + If(save_ref, 1, 0), B01(bytes_for_s), 1)))})

ALL_CONTRACTS = CONTRACTS + [R_OBJECT_ABSTRACT]
