"""Sidecar contracts for the per-offset instruction decoder and its driver in xdis/bytecode.py
(C02 tiling/operands, C03 argval resolution, C04 jump targets and is_jump_target, C05/C20 starts_line)."""
import z3
from pyvc.engine import Loop, HMap
from pyvc.types import Int, Bytes, IntMap, IdSeq, IdTuple, Const, ForAll, OneOf, Maker, Tok
from pyvc.sym import And, Or, Not, Implies, If, Len, SSet, SEnum, SInt, SBool, is_sym, _ie, Eq
from contracts.common import Registry, SetOf, table_configs, REF, ctab, EXT, In, At, gen_code, IsNone, OptVal, Has, MapHas, MapAt
from contracts import wordcode as CW
from spec import wordcode as W, jumps as J

R = Registry()
contract = R.contract
CONTRACTS = R.contracts
configs_for = R.configs_for


def Lookup(table, idx):
    """table[idx] for a concrete table and a possibly symbolic index"""
    if is_sym(idx):
        return SEnum(_ie(idx), table).collapse()
    return table[idx] if 0 <= idx < len(table) else None


def is_word(opc):
    return opc.version_tuple >= (3, 6)


def width(opc):
    return 2 if is_word(opc) else 3


def grp_ext(code, opc, off0, j):
    return W.g_ext(code, off0, j) if is_word(opc) else W.gb_ext(code, off0, j)


def grp_len(code, opc, off0):
    f = W.g_len if is_word(opc) else W.gb_len
    return f(code, off0, opc.HAVE_ARGUMENT, EXT(opc))


def operand(code, opc, off0, j):
    off = off0 + width(opc) * j
    if is_word(opc):
        return code[off + 1] + W.g_ext(code, off0, j)
    return code[off + 1] + code[off + 2] * 256 + W.gb_ext(code, off0, j)


def label_spec(code, opc):
    """the label set dis.findlabels computes for the whole code string"""
    if opc.version_tuple >= (3, 6):
        return CW.lab_spec(code, opc, Len(code) // 2)
    return J.blab(code, W.b_cnt(code, 0, opc.HAVE_ARGUMENT), opc.HAVE_ARGUMENT, EXT(opc), REF(opc).hasjrel, REF(opc).hasjabs)


def finder_pre(code, opc):
    """precondition of the label finder the table binds (valid code object)"""
    if opc.version_tuple >= (3, 11):
        return CW.wf311(code, opc)
    if opc.version_tuple >= (3, 6):
        return And(Len(code) % 2 == 0, Len(code) >= 2)
    return And(Len(code) >= 1, W.b_off(code, W.b_cnt(code, 0, opc.HAVE_ARGUMENT), opc.HAVE_ARGUMENT) == Len(code))


def name_index(opc, op, A):
    vt = opc.version_tuple
    r = REF(opc)
    idx = A
    om = r.opmap
    if vt >= (3, 11) and "LOAD_GLOBAL" in om:
        idx = If(op == om["LOAD_GLOBAL"], A >> 1, idx)
    if vt >= (3, 12) and "LOAD_ATTR" in om:
        idx = If(op == om["LOAD_ATTR"], A >> 1, idx)
    if vt >= (3, 12) and "LOAD_SUPER_ATTR" in om:
        idx = If(op == om["LOAD_SUPER_ATTR"], A >> 2, idx)
    return idx


def tuple_at(t, i, default):
    """t[i] if 0 <= i < len(t) else default, for a python tuple of (symbolic) ids and symbolic i"""
    r = default
    for j in range(len(t) - 1, -1, -1):
        r = If(i == j, t[j], r)
    return r


def localsplus(varnames, cells):
    """xdis's reconstruction of co_localsplusnames from (co_varnames, co_cellvars + co_freevars): equal to
    CPython's table provided no free variable shares its name with a local (known finding C03-localsplus)"""
    vs = tuple(varnames or ())
    out = list(vs)
    return vs, tuple(cells or ())


def jump_target(opc, off, op, A):
    r = REF(opc)
    if is_word(opc):
        scale = 2 if opc.version_tuple >= (3, 10) else 1
        return J.w_target(off, op, A, scale, r.hasjrel, r.hasjabs, r.backward, ctab(opc), r.caches_in_targets)
    return If(In(op, r.hasjrel), off + 3 + A, A)


def inst_post(value, bytecode, offset0, opc, j, linestarts, line_offset, names, constants, varnames, cells):
    """field-by-field postcondition of the j-th Instruction of the logical instruction at offset0"""
    r = REF(opc)
    Wd = width(opc)
    off = offset0 + Wd * j
    op = bytecode[off]
    have = opc.HAVE_ARGUMENT
    has_arg = op >= have
    A = operand(bytecode, opc, offset0, j)
    size = (2 if is_word(opc) else If(has_arg, 3, 1)) + j * Wd
    out = [
        ("offset", value.offset == off),
        ("opcode", value.opcode == op),
        ("opname", value.opname == Lookup(opc.opname, op)),
        ("has_arg", value.has_arg == has_arg),
        ("arg", value.arg == If(has_arg, A, None)),
        ("inst_size", value.inst_size == size),
        ("has_extended_arg", value.has_extended_arg == (j != 0)),
        ("is_jump_target", value.is_jump_target == Has(label_spec(bytecode, opc), off)),
    ]
    if linestarts is None:
        out.append(("starts_line", IsNone(value.starts_line)))
    else:
        out.append(("starts_line", value.starts_line == If(MapHas(linestarts, off), MapAt(linestarts, off) + line_offset, None)))
    # ---- argval (C03 / C04)
    is_const = In(op, r.hasconst)
    is_name = And(Not(is_const), In(op, r.hasname))
    is_jrel = And(Not(is_const), Not(In(op, r.hasname)), In(op, r.hasjrel))
    is_jabs = And(Not(is_const), Not(In(op, r.hasname)), Not(In(op, r.hasjrel)), In(op, r.hasjabs))
    is_jump = Or(is_jrel, is_jabs)
    out.append(("argval-noarg", Implies(Not(has_arg), IsNone(value.argval))))
    out.append(("argval-const", Implies(And(has_arg, is_const), value.argval == (A if constants is None else At(constants, A)))))
    ni = name_index(opc, op, A)
    out.append(("argval-name", Implies(And(has_arg, is_name), value.argval == (A if names is None else If(ni < Len(names), At(names, ni), ni)))))
    out.append(("argval-jump", Implies(And(has_arg, is_jump), value.argval == jump_target(opc, off, op, A))))
    other = And(Not(is_const), Not(In(op, r.hasname)), Not(In(op, r.hasjrel)), Not(In(op, r.hasjabs)))
    is_local = And(other, In(op, r.haslocal))
    is_free = And(other, Not(In(op, r.haslocal)), In(op, r.hasfree))
    is_cmp = And(other, Not(In(op, r.haslocal)), Not(In(op, r.hasfree)), In(op, r.hascompare))
    vt = opc.version_tuple
    vs = tuple(varnames or ())
    cs = tuple(cells or ())
    # xdis's localsplus table: varnames + (cells not already among varnames)
    def lp_at(i):
        res = i
        extra = []
        for c in cs:
            extra.append((c, Not(Or(*[c == v for v in vs])) if vs else True))
        # position of each kept cell = len(vs) + number of kept cells before it
        for ci in range(len(extra) - 1, -1, -1):
            c, keep = extra[ci]
            pos = len(vs)
            for (c2, k2) in extra[:ci]:
                pos = pos + If(k2, 1, 0)
            res = If(And(keep, i == pos), c, res)
        for j in range(len(vs) - 1, -1, -1):
            res = If(i == j, vs[j], res)
        return res
    if vt >= (3, 13):
        pair_ops = [r.opmap[n] for n in ("LOAD_FAST_LOAD_FAST", "STORE_FAST_LOAD_FAST", "STORE_FAST_STORE_FAST") if n in r.opmap]
        is_pair = In(op, frozenset(pair_ops))
        out.append(("argval-local-pair", Implies(And(has_arg, is_local, is_pair), Eq(value.argval, (lp_at(A >> 4), lp_at(A & 15))))))
        out.append(("argval-local", Implies(And(has_arg, is_local, Not(is_pair)), value.argval == lp_at(A))))
    elif vt >= (3, 11):
        out.append(("argval-local", Implies(And(has_arg, is_local), value.argval == lp_at(A))))
    else:
        out.append(("argval-local", Implies(And(has_arg, is_local), value.argval == tuple_at(vs, A, A))))
    if vt >= (3, 11):
        out.append(("argval-free", Implies(And(has_arg, is_free), value.argval == lp_at(A))))
    else:
        out.append(("argval-free", Implies(And(has_arg, is_free), value.argval == tuple_at(cs, A, A))))
    ci = A >> 5 if vt >= (3, 13) else (A >> 4 if vt >= (3, 12) else A)
    ref_cmp = list(r.cmp_op)
    # known finding C03-cmp_op: xdis spells 'not-in', 'is-not', 'exception-match' where CPython's dis.cmp_op has
    # 'not in', 'is not', 'exception match' (indices 7, 9, 10 of the tables that still have them)
    kf = [i for i in (7, 9, 10) if i < len(ref_cmp)]
    in_kf = Or(*[ci == i for i in kf]) if kf else False
    want = Lookup(ref_cmp + ["<none>"] * (len(opc.cmp_op) - len(ref_cmp)), ci)
    defined = And(ci >= 0, ci < len(ref_cmp))
    out.append(("argval-compare", Implies(And(has_arg, is_cmp, defined, Not(in_kf)), value.argval == want)))
    if kf:
        out.append(("argval-compare/KF-cmp_op-spelling", Implies(And(has_arg, is_cmp, defined, in_kf), value.argval == want)))
    out.append(("argval-other", Implies(And(has_arg, other, Not(In(op, r.haslocal)), Not(In(op, r.hasfree)), Not(In(op, r.hascompare))), value.argval == A)))
    return out


class Tables(Maker):
    """(varnames, names, constants, cells) inputs of the decoder"""


WORD_ALPHA = CW.EVEN


def dec_requires(bytecode, offset, opc):
    n = Len(bytecode)
    if is_word(opc):
        return And(finder_pre(bytecode, opc), 0 <= offset, offset < n, offset % 2 == 0)
    return And(finder_pre(bytecode, opc), 0 <= offset, offset < n,
               W.gb_end(bytecode, offset, opc.HAVE_ARGUMENT, EXT(opc)) <= n)


def dec_invariant(bytecode, opc, _old_offset, i, n, extended_arg, extended_arg_count, last_op_was_extended_arg, _ny):
    have, ext = opc.HAVE_ARGUMENT, EXT(opc)
    Wd = width(opc)
    common = And(
        n == Len(bytecode), _ny >= 0, Implies(last_op_was_extended_arg, i == _old_offset + Wd * _ny),
        extended_arg >= 0,
        Implies(last_op_was_extended_arg, extended_arg == grp_ext(bytecode, opc, _old_offset, _ny)),
        Implies(last_op_was_extended_arg, extended_arg_count == _ny),
        Implies(Not(last_op_was_extended_arg), extended_arg_count == 0),
        _ny + If(last_op_was_extended_arg, grp_len(bytecode, opc, i), 0) == grp_len(bytecode, opc, _old_offset),
        Implies(Not(last_op_was_extended_arg), _ny >= 1))
    if is_word(opc):
        return And(common, extended_arg % 256 == 0)
    return And(common, extended_arg % 65536 == 0,
               Implies(last_op_was_extended_arg, W.gb_end(bytecode, i, have, ext) == W.gb_end(bytecode, _old_offset, have, ext)))


contract(
    "xdis.bytecode:get_logical_instruction_at_offset",
    kind="generator",
    configs=lambda: dict((lb, {"opc": m, "exception_entries": None, "labels": None}) for lb, m in CW.tables().items()),
    params={"bytecode": Bytes(alphabet=WORD_ALPHA, maxlen=8, even=True), "offset": Int(pool=[0, 2, 4, 1, 3, 6]),
            # bounded: two local names and one cell/free name (identities symbolic, so "the cell is also a
            # local" and "it is not" are both covered); names / constants / line starts are unbounded
            "varnames": IdTuple(2, 2000, minlen=2), "names": IdSeq(), "constants": IdSeq(), "cells": IdTuple(1, 2000, minlen=1),
            "linestarts": IntMap(), "line_offset": Int(pool=[0, 5, -2])},
    examples={"bytecode": gen_code},
    requires=lambda bytecode, offset, opc: dec_requires(bytecode, offset, opc),
    raises={IndexError: True},
    yield_count=lambda bytecode, offset, opc: grp_len(bytecode, opc, offset),
    yield_post=lambda value, bytecode, _old_offset, opc, _k, linestarts, line_offset, names, constants, varnames, cells:
        inst_post(value, bytecode, _old_offset, opc, _k, linestarts, line_offset, names, constants, varnames, cells),
    loops={2: Loop("while i < n and last_op_was_extended_arg",
                   invariant=dec_invariant,
                   decreases=lambda n, i, last_op_was_extended_arg: n - i + If(last_op_was_extended_arg, 1, 0))},
    opaque=("format_CALL_FUNCTION", "format_CALL_FUNCTION_EX", "prefer_double_quote"),
)


# ================================================================================================
# Call-site view of the decoder + the stream driver get_instructions_bytes (C02 tiling, C04/C05/C20 pass-through)
class FreshInstruction(Maker):
    """an Instruction whose structural fields are fresh symbols; text / resolved-value fields are unmodelled"""
    def __call__(self, eng, name):
        from xdis.instruction import Instruction
        from pyvc.engine import Opaque
        from pyvc.sym import SOpt, SBool, SInt
        mk = lambda t: z3.Int("%s.%s" % (name, t))
        v = Instruction(opcode=SInt(mk("opcode")), opname=Opaque("opname"), arg=SOpt(z3.Bool(name + ".arg!none"), mk("arg")),
                        argval=Opaque("argval"), argrepr=Opaque("argrepr"), offset=SInt(mk("offset")),
                        starts_line=SOpt(z3.Bool(name + ".sl!none"), mk("starts_line")), is_jump_target=SBool(z3.Bool(name + ".jt")),
                        positions=None, optype=Opaque("optype"), has_arg=SBool(z3.Bool(name + ".has_arg")), inst_size=SInt(mk("inst_size")),
                        has_extended_arg=SBool(z3.Bool(name + ".hext")), fallthrough=None, tos_str=None, start_offset=Opaque("start_offset"))
        return v, []


def inst_struct(value, bytecode, offset0, opc, j, linestarts, line_offset):
    """structural part of inst_post (what callers of the decoder may assume about the j-th instruction)"""
    Wd = width(opc)
    off = offset0 + Wd * j
    op = bytecode[off]
    has_arg = op >= opc.HAVE_ARGUMENT
    A = operand(bytecode, opc, offset0, j)
    size = (2 if is_word(opc) else If(has_arg, 3, 1)) + j * Wd
    out = [("offset", value.offset == off), ("opcode", value.opcode == op), ("has_arg", value.has_arg == has_arg),
           ("arg", value.arg == If(has_arg, A, None)), ("inst_size", value.inst_size == size),
           ("has_extended_arg", value.has_extended_arg == (j != 0)),
           ("is_jump_target", value.is_jump_target == Has(label_spec(bytecode, opc), off))]
    if linestarts is None:
        out.append(("starts_line", IsNone(value.starts_line)))
    else:
        out.append(("starts_line", value.starts_line == If(MapHas(linestarts, off), MapAt(linestarts, off) + line_offset, None)))
    return out


_DEC = CONTRACTS[0]
_DEC.yield_fresh = FreshInstruction()
_DEC.yield_post_call = lambda value, bytecode, _old_offset, opc, _k, linestarts, line_offset: inst_struct(value, bytecode, _old_offset, opc, _k, linestarts, line_offset)


def glob_ext(code, opc, k):
    """CPython's extended_arg in effect at word k of the whole code string (global decode)"""
    if opc.version_tuple >= (3, 11):
        return W.c_ext(code, k, REF(opc).hasarg, EXT(opc), ctab(opc))
    return W.w_ext(code, k, opc.HAVE_ARGUMENT, EXT(opc))


def wf_ext(code, opc):
    """valid code: EXTENDED_ARG is followed by an operand-taking instruction (3.6 - 3.10; part of wf311 from 3.11)"""
    ext, have = EXT(opc), opc.HAVE_ARGUMENT
    return ForAll(lambda i: Implies(And(0 <= i, 2 * i < Len(code), At(code, 2 * i) == ext),
                                    And(2 * i + 2 < Len(code), At(code, 2 * i + 2) >= have)))


def drv_requires(bytecode, opc):
    if opc.version_tuple >= (3, 11):
        return finder_pre(bytecode, opc)
    return And(finder_pre(bytecode, opc), wf_ext(bytecode, opc))


def drv_post(value, bytecode, opc, _ny, linestarts, line_offset):
    """k-th instruction of the stream (word code): tiles the code in words, operands folded as CPython's
    _unpack_opargs folds them over the *whole* code string, flags/lines as for the decoder"""
    k = _ny
    off = 2 * k
    op = bytecode[off]
    has_arg = op >= opc.HAVE_ARGUMENT
    out = [("offset==2k", value.offset == off), ("opcode", value.opcode == op),
           ("arg", value.arg == If(has_arg, bytecode[off + 1] + glob_ext(bytecode, opc, k), None)),
           ("is_jump_target", value.is_jump_target == Has(label_spec(bytecode, opc), off))]
    if linestarts is not None:
        out.append(("starts_line", value.starts_line == If(MapHas(linestarts, off), MapAt(linestarts, off) + line_offset, None)))
    return out


def drv_outer_inv(bytecode, opc, offset, n, _ny):
    return And(n == Len(bytecode), offset == 2 * _ny, _ny >= 0, offset <= n, glob_ext(bytecode, opc, _ny) == 0)


def drv_inner_inv(bytecode, opc, offset, n, instructions, instruction, _k, _ny):
    have, ext = opc.HAVE_ARGUMENT, EXT(opc)
    L = W.g_len(bytecode, offset, have, ext)
    return And(n == Len(bytecode), offset % 2 == 0, offset >= 0, offset < n, _ny == offset // 2 + _k, 0 <= _k, _k <= L,
               glob_ext(bytecode, opc, offset // 2) == 0,
               Implies(_k < L, And(_k + W.g_len(bytecode, offset + 2 * _k, have, ext) == L,
                                   W.g_ext(bytecode, offset, _k) == glob_ext(bytecode, opc, offset // 2 + _k))),
               Implies(And(_k >= 1, _k < L), And(bytecode[offset + 2 * (_k - 1)] == ext, ext >= have)),
               Implies(_k >= 2, And(bytecode[offset + 2 * (_k - 2)] == ext, ext >= have)),
               Implies(_k >= 1, And(instruction.offset == offset + 2 * (_k - 1), instruction.opcode == bytecode[offset + 2 * (_k - 1)],
                                    Or(_k < L, Not(And(instruction.opcode == ext, instruction.opcode >= have)), offset + 2 * _k >= n))))


contract(
    "xdis.bytecode:get_instructions_bytes",
    kind="generator",
    configs=lambda: dict((lb, {"opc": m, "exception_entries": None}) for lb, m in CW.tables().items() if m.version_tuple >= (3, 6)),
    when=lambda opc: opc.version_tuple >= (3, 6),
    params={"bytecode": Bytes(alphabet=WORD_ALPHA, maxlen=8, even=True), "linestarts": IntMap(), "line_offset": Int(pool=[0, 5, -2]),
            "varnames": Tok(tuple, ("a", "b")), "names": Tok(tuple, ("n",)), "constants": Tok(tuple, (None, 1)), "cells": Tok(tuple, ())},
    examples={"bytecode": gen_code},
    requires=lambda bytecode, opc, exception_entries: And(drv_requires(bytecode, opc), exception_entries is None),
    raises={IndexError: True},
    yield_count=lambda bytecode: Len(bytecode) // 2,
    yield_fresh=FreshInstruction(),
    yield_post=lambda value, bytecode, opc, _ny, linestarts, line_offset: drv_post(value, bytecode, opc, _ny, linestarts, line_offset),
    loops={2: Loop("while offset < n", invariant=drv_outer_inv, decreases=lambda n, offset: n - offset),
           3: Loop("for instruction in instructions", havoc={"instruction": FreshInstruction()}, invariant=drv_inner_inv)},
)


# ------------------------------------------------------------------------------------------------ < 3.6 byte code driver
def b_have_ext(opc):
    return opc.HAVE_ARGUMENT, EXT(opc)


def drvb_post(value, bytecode, opc, _ny, linestarts, line_offset):
    """k-th instruction of the stream (byte code): at the offset CPython's _unpack_opargs reaches after k instructions, operand
    folded over the whole code string"""
    have, ext = b_have_ext(opc)
    k = _ny
    off = W.b_off(bytecode, k, have)
    op = bytecode[off]
    has_arg = op >= have
    out = [("offset==b_off(k)", value.offset == off), ("opcode", value.opcode == op),
           ("arg", value.arg == If(has_arg, W.b_arg(bytecode, k, have, ext), None)),
           ("is_jump_target", value.is_jump_target == Has(label_spec(bytecode, opc), off))]
    if linestarts is not None:
        out.append(("starts_line", value.starts_line == If(MapHas(linestarts, off), MapAt(linestarts, off) + line_offset, None)))
    return out


def wf_ext_b(code, opc):
    """valid code: EXTENDED_ARG is followed by an operand-taking instruction"""
    have, ext = b_have_ext(opc)
    if ext < 0:
        return True
    return ForAll(lambda i: Implies(And(0 <= i, i < Len(code), At(code, i) == ext, ext >= have), And(i + 3 < Len(code), At(code, i + 3) >= have)))


def wf_groups_b(code, opc):
    """valid code, stated per instruction start: the logical instruction (EXTENDED_ARG prefixes + instruction) that starts there
    ends inside the code.  (Mathematically a consequence of the tiling precondition and wf_ext_b; assumed, not derived: the
    derivation is an induction over the instruction index that the solver does not find.)"""
    have, ext = b_have_ext(opc)
    cnt = W.b_cnt(code, 0, have)
    return ForAll(lambda k: Implies(And(0 <= k, k < cnt), W.gb_end(code, W.b_off(code, k, have), have, ext) <= Len(code)))


def drvb_outer_inv(bytecode, opc, offset, n, _ny):
    have, ext = b_have_ext(opc)
    return And(n == Len(bytecode), _ny >= 0, offset == W.b_off(bytecode, _ny, have), offset >= 0,
               W.b_ext(bytecode, _ny, have, ext) == 0,
               W.b_cnt(bytecode, offset, have) + _ny == W.b_cnt(bytecode, 0, have))


def drvb_inner_inv(bytecode, opc, offset, n, instructions, instruction, _k, _ny):
    have, ext = b_have_ext(opc)
    L = W.gb_len(bytecode, offset, have, ext)
    k0 = _ny - _k
    return And(n == Len(bytecode), offset >= 0, offset < n, 0 <= _k, _k <= L, k0 >= 0,
               offset == W.b_off(bytecode, k0, have), W.b_ext(bytecode, k0, have, ext) == 0,
               W.b_cnt(bytecode, offset, have) + k0 == W.b_cnt(bytecode, 0, have),
               Implies(_k < L, And(_k + W.gb_len(bytecode, offset + 3 * _k, have, ext) == L,
                                   offset + 3 * _k == W.b_off(bytecode, _ny, have),
                                   W.gb_ext(bytecode, offset, _k) == W.b_ext(bytecode, _ny, have, ext),
                                   W.b_cnt(bytecode, offset + 3 * _k, have) + _ny == W.b_cnt(bytecode, 0, have))),
               Implies(And(_k >= 1, _k < L), And(bytecode[offset + 3 * (_k - 1)] == ext, ext >= have)),
               Implies(_k >= 2, And(bytecode[offset + 3 * (_k - 2)] == ext, ext >= have)),
               Implies(_k >= 1, And(instruction.offset == offset + 3 * (_k - 1), instruction.opcode == bytecode[offset + 3 * (_k - 1)],
                                    instruction.offset == W.b_off(bytecode, _ny - 1, have),
                                    W.b_cnt(bytecode, instruction.offset, have) + _ny - 1 == W.b_cnt(bytecode, 0, have),
                                    Or(_k < L, Not(And(instruction.opcode == ext, instruction.opcode >= have))))))


contract(
    "xdis.bytecode:get_instructions_bytes", name="xdis.bytecode:get_instructions_bytes/bytecode",
    kind="generator",
    configs=lambda: dict((lb, {"opc": m, "exception_entries": None}) for lb, m in CW.tables().items() if m.version_tuple < (3, 6)),
    when=lambda opc: opc.version_tuple < (3, 6),
    params={"bytecode": Bytes(maxlen=9), "linestarts": IntMap(), "line_offset": Int(pool=[0, 5, -2]),
            "varnames": Tok(tuple, ("a", "b")), "names": Tok(tuple, ("n",)), "constants": Tok(tuple, (None, 1)), "cells": Tok(tuple, ())},
    examples={"bytecode": gen_code},
    requires=lambda bytecode, opc, exception_entries: And(finder_pre(bytecode, opc), wf_ext_b(bytecode, opc), wf_groups_b(bytecode, opc), exception_entries is None),
    raises={IndexError: True, AssertionError: True},      # AssertionError: operand formatters of basic.py on operands no compiler emits
    yield_count=lambda bytecode, opc: W.b_cnt(bytecode, 0, opc.HAVE_ARGUMENT),
    yield_fresh=FreshInstruction(),
    yield_post=lambda value, bytecode, opc, _ny, linestarts, line_offset: drvb_post(value, bytecode, opc, _ny, linestarts, line_offset),
    loops={2: Loop("while offset < n", invariant=drvb_outer_inv, decreases=lambda n, offset: n - offset),
           3: Loop("for instruction in instructions", havoc={"instruction": FreshInstruction()}, invariant=drvb_inner_inv)},
    unfold_depth=3,
)


ALL_CONTRACTS = CW.CONTRACTS + CONTRACTS     # callee contracts available at call sites
