"""Sidecar contracts for the lnotab encoders behind freeze() (C19): Code3.encode_lineno_tab (3.0-3.9; unsigned and
signed readers) and Code15.encode_lineno_tab (1.5-2.7, unsigned reader).

The byte string under construction is not modelled as bytes but through a GHOST DECODER (pyvc.engine.HAcc): the state
CPython's own reader (dis.findlinestarts of that version family: address/line running sums, "yield (addr, line) when the
address is about to advance and the line differs from the last yielded one") is in after the bytes appended so far.
Proved, for every table of strictly increasing offsets whose consecutive lines differ (and, for unsigned formats, do not
decrease), every first line and every gap size:
  * every pair appended is two bytes in 0..255;
  * whenever the reader would yield, the pair it yields is exactly the previous table entry (no spurious, shifted or
    mis-numbered line start, in particular across continuation pairs);
  * after the encoding of entry k the reader has yielded exactly k pairs and stands at (offset_k, line_k): the last entry
    is what it yields at the end of the table.
Together: the reader's output is the table (induction over entries; the closing argument "a reader with these yields
returns this list" is the definition of the reader, transcribed in HAcc.put)."""
import z3
from pyvc.engine import Loop, SObj, HAcc, AccSpec, Contract
from pyvc.types import Maker, Int, PairList, ForAll
from pyvc.sym import And, Or, Not, Implies, If, Len, SInt, SBool, _ie
from contracts.common import Registry

R = Registry()
contract = R.contract
CONTRACTS = R.contracts
configs_for = R.configs_for


class CodeWithTable(Maker):
    """portable code object whose co_lnotab is a list of (offset, line) pairs"""
    def __call__(self, eng, name):
        import importlib
        modname, clsname = eng.entry_cfg["_class"]
        cls = getattr(importlib.import_module(modname), clsname)
        tab, hs = PairList()(eng, name + ".co_lnotab")
        first = z3.Int(name + ".co_firstlineno")
        o = SObj(__class__=cls, co_lnotab=tab, co_firstlineno=SInt(first), lnotab_signed=eng.entry_cfg["_signed"])
        return o, hs

    def examples(self, rng, n):
        out = []
        gaps_o = [1, 2, 4, 254, 255, 256, 257, 510, 600]
        gaps_l = [1, 2, 126, 127, 128, 129, 254, 255, 256, 257, 300, 1000, -1, -2, -127, -128, -129, -256, -300]
        for _ in range(n):
            first = rng.choice([1, 40, 2000])
            line = first + rng.choice([0, 0, 3, 200])
            off = 0
            t = [(0, line)]
            for _ in range(rng.randrange(0, 4)):
                off += rng.choice(gaps_o)
                line += rng.choice(gaps_l)
                t.append((off, line))
            out.append(("__obj__", {"co_lnotab": t, "co_firstlineno": first}))
        return out


def reference_reader(data, first, signed):
    """dis.findlinestarts of CPython <= 3.9 on a raw co_lnotab (without the 3.8+ end-of-code cut, which needs co_code)"""
    out, addr, line, last = [], 0, first, None
    for a, b in zip(data[0::2], data[1::2]):
        if a:
            if line != last:
                out.append((addr, line))
                last = line
            addr += a
        if signed and b >= 128:
            b -= 256
        line += b
    if line != last:
        out.append((addr, line))
    return out


def native_encoder_check(config, inputs):
    import importlib
    s = inputs["self"]
    t = [tuple(x) for x in s.co_lnotab]
    first = s.co_firstlineno
    signed_tab = config["_signed"]
    ok = all(a[0] < b[0] and a[1] != b[1] for a, b in zip(t, t[1:])) and (not t or t[0][0] == 0) and all(x[0] >= 0 for x in t)
    if not signed_tab:
        ok = ok and (not t or t[0][1] >= first) and all(a[1] <= b[1] for a, b in zip(t, t[1:]))
    if not ok:
        return None
    modname, clsname = config["_class"]
    cls = getattr(importlib.import_module(modname), clsname)
    obj = cls.__new__(cls)
    obj.co_lnotab = list(t)
    obj.co_firstlineno = first
    try:
        obj.encode_lineno_tab()
    except Exception as e:
        return {"violated": ["raises:%s" % type(e).__name__], "exception": repr(e)}
    data = obj.co_lnotab
    data = data.encode("latin-1") if isinstance(data, str) else bytes(data)
    got = reference_reader(data, first, config["_reader_signed"])
    want = list(t)
    if t and t[0][1] == first and False:
        pass
    return {"violated": [] if got == want else ["reader(%r) == %r, table %r" % (list(data)[:24], got[:6], want[:6])], "result": repr(list(data)[:40])}


def table_ok(self, signed):
    t = self.co_lnotab
    n = Len(t)
    return And(
        ForAll(lambda j: Implies(And(0 <= j, j < n), And(t[j][0] >= 0, Implies(j + 1 < n, t[j][0] < t[j + 1][0])))),
        ForAll(lambda j: Implies(And(0 <= j, j + 1 < n), t[j][1] != t[j + 1][1])),
        # the first entry is for offset 0 (the format has no way to say otherwise) and differs from nothing before it
        Implies(n > 0, t[0][0] == 0),
        True if signed else And(Implies(n > 0, t[0][1] >= self.co_firstlineno),
                                ForAll(lambda j: Implies(And(0 <= j, j + 1 < n), t[j][1] <= t[j + 1][1]))))


def on_yield(addr, line, _old_self, _k0):
    """the reader yields while entry _k0 is being encoded: it must yield entry _k0 - 1"""
    t = _old_self.co_lnotab
    return And(_k0 >= 1, addr == t[_k0 - 1][0], line == t[_k0 - 1][1])


def start_of(_old_self, k):
    """(offset, line) the reader stands at when the encoding of entry k begins"""
    t = _old_self.co_lnotab
    return If(k >= 1, t[k - 1][0], 0), If(k >= 1, t[k - 1][1], _old_self.co_firstlineno)


def outer_inv(co_lnotab, prev_offset, prev_line_number, _old_self, _k):
    """between entries: the reader has yielded entries 0.._k-2, stands at entry _k-1 and will yield it next"""
    s_off, s_line = start_of(_old_self, _k)
    return And(co_lnotab.A == s_off, co_lnotab.L == s_line, prev_offset == s_off, prev_line_number == s_line,
               co_lnotab.N == If(_k >= 1, _k - 1, 0),
               If(_k >= 1, co_lnotab.pending, Not(co_lnotab.HL)))


def inside(co_lnotab, offset, line_number, offset_diff, line_diff, prev_offset, prev_line_number, _old_self, _k0, self=None):
    """inside entry _k0: what is still owed (offset_diff, line_diff) plus what the reader has seen make up the entry; no line
    increment is emitted while an address increment is owed; the reader yields entry _k0-1 exactly once, at the first pair that
    advances the address"""
    t = _old_self.co_lnotab
    s_off, s_line = start_of(_old_self, _k0)
    A, L = co_lnotab.A, co_lnotab.L
    return And(0 <= _k0, _k0 < Len(t), offset == t[_k0][0], line_number == t[_k0][1], prev_offset == offset, prev_line_number == line_number,
               A + offset_diff == offset, L + line_diff == line_number, offset_diff >= 0, A >= s_off,
               True if (self is None or self.lnotab_signed) else line_diff >= 0,      # unsigned tables: entries that go back were skipped
               Implies(offset_diff != 0, L == s_line),
               If(_k0 >= 1,
                  If(A == s_off, And(co_lnotab.N == _k0 - 1, co_lnotab.pending, L == s_line),
                     And(co_lnotab.N == _k0, co_lnotab.HL, co_lnotab.LAST == s_line)),
                  And(co_lnotab.N == 0, Not(co_lnotab.HL), A == 0)))


def final_state(co_lnotab, _old_self):
    t = _old_self.co_lnotab
    n = Len(t)
    return [("yields-so-far", co_lnotab.N == If(n >= 1, n - 1, 0)),
            ("stands-at-last-entry", Implies(n >= 1, And(co_lnotab.A == t[n - 1][0], co_lnotab.L == t[n - 1][1]))),
            ("last-entry-will-be-yielded", Implies(n >= 1, co_lnotab.pending)),
            ("empty-table", Implies(n == 0, And(co_lnotab.A == 0, co_lnotab.L == _old_self.co_firstlineno)))]


CODE3 = "xdis.codetype.code30:Code3.encode_lineno_tab"
contract(CODE3,
         configs={"Code3/unsigned-reader(3.0-3.5)": {"_class": ("xdis.codetype.code30", "Code3"), "_signed": False, "_reader_signed": False},
                  "Code3/signed-reader(3.6-3.7)": {"_class": ("xdis.codetype.code30", "Code3"), "_signed": False, "_reader_signed": True},
                  "Code38/signed-reader(3.8-3.9)": {"_class": ("xdis.codetype.code38", "Code38"), "_signed": True, "_reader_signed": True}},
         params={"self": CodeWithTable()},
         requires=lambda self, _engine: table_ok(self, _engine.entry_cfg["_signed"]),
         accumulators={"co_lnotab": AccSpec(first=lambda self: self.co_firstlineno, signed=lambda cfg: cfg["_reader_signed"], on_yield=on_yield)},
         ensures=lambda self, _old_self: final_state(self.co_lnotab, _old_self),
         native_check=native_encoder_check,
         loops={0: Loop("for offset, line_number in self.co_lnotab", invariant=outer_inv),
                1: Loop("while offset_diff >= 256", invariant=lambda co_lnotab, offset, line_number, offset_diff, line_diff, prev_offset, prev_line_number, _old_self, _k0, self: And(
                            inside(co_lnotab, offset, line_number, offset_diff, line_diff, prev_offset, prev_line_number, _old_self, _k0, self),
                            co_lnotab.L == start_of(_old_self, _k0)[1]),
                        decreases=lambda offset_diff: offset_diff),
                2: Loop("while line_diff > 127", invariant=lambda co_lnotab, offset, line_number, offset_diff, line_diff, prev_offset, prev_line_number, _old_self, _k0, self: And(
                            inside(co_lnotab, offset, line_number, offset_diff, line_diff, prev_offset, prev_line_number, _old_self, _k0, self), offset_diff < 256),
                        decreases=lambda line_diff: line_diff),
                3: Loop("while line_diff < -128", invariant=lambda co_lnotab, offset, line_number, offset_diff, line_diff, prev_offset, prev_line_number, _old_self, _k0, self: And(
                            inside(co_lnotab, offset, line_number, offset_diff, line_diff, prev_offset, prev_line_number, _old_self, _k0, self), offset_diff < 256, line_diff <= 127),
                        decreases=lambda line_diff: 0 - line_diff)})

ALL_CONTRACTS = list(CONTRACTS)


# ------------------------------------------------------------------------------------------------ Code15 / Code2 (1.5 - 2.7)
# str-based encoder, unsigned reader, continuation pairs of 255
def inside15(co_lnotab, offset, line_number, offset_diff, line_diff, prev_offset, prev_line_number, _old_self, _k0):
    return And(inside(co_lnotab, offset, line_number, offset_diff, line_diff, prev_offset, prev_line_number, _old_self, _k0), line_diff >= 0)


CODE15 = "xdis.codetype.code15:Code15.encode_lineno_tab"
contract(CODE15,
         configs={"Code15(1.5-1.6)": {"_class": ("xdis.codetype.code15", "Code15"), "_signed": False, "_reader_signed": False},
                  "Code2(2.0-2.7)": {"_class": ("xdis.codetype.code20", "Code2"), "_signed": False, "_reader_signed": False}},
         params={"self": CodeWithTable()},
         requires=lambda self: table_ok(self, False),
         accumulators={"co_lnotab": AccSpec(first=lambda self: self.co_firstlineno, signed=False, on_yield=on_yield)},
         ensures=lambda self, _old_self: final_state(self.co_lnotab, _old_self),
         native_check=native_encoder_check,
         loops={0: Loop("for offset, line_number in self.co_lnotab", invariant=outer_inv),
                1: Loop("while offset_diff >= 256", invariant=lambda co_lnotab, offset, line_number, offset_diff, line_diff, prev_offset, prev_line_number, _old_self, _k0: And(
                            inside15(co_lnotab, offset, line_number, offset_diff, line_diff, prev_offset, prev_line_number, _old_self, _k0),
                            co_lnotab.L == start_of(_old_self, _k0)[1]),
                        decreases=lambda offset_diff: offset_diff),
                2: Loop("while line_diff >= 256", invariant=lambda co_lnotab, offset, line_number, offset_diff, line_diff, prev_offset, prev_line_number, _old_self, _k0: And(
                            inside15(co_lnotab, offset, line_number, offset_diff, line_diff, prev_offset, prev_line_number, _old_self, _k0), offset_diff < 256),
                        decreases=lambda line_diff: line_diff)})

ALL_CONTRACTS = list(CONTRACTS)


# ------------------------------------------------------------------------------------------------ Code310 (3.10 line table)
# The 3.10 table is a sequence of (range length, signed line delta) pairs; -128 marks a range without line.  The ghost reader
# (HAcc mode "lt310") is dis.findlinestarts over code.co_lines() of CPython 3.10.  The encoder has a nested emitter function;
# its loops are specified under the key ("emit_range", ordinal).
from pyvc.types import Bytes


class Code310WithTable(Maker):
    def __call__(self, eng, name):
        import xdis.codetype.code310 as C
        tab, hs = PairList()(eng, name + ".co_linetable")
        code, hs2 = Bytes()(eng, name + ".co_code")
        first = z3.Int(name + ".co_firstlineno")
        o = SObj(__class__=C.Code310, co_linetable=tab, co_code=code, co_firstlineno=SInt(first))
        return o, hs + hs2

    def examples(self, rng, n):
        out = []
        gaps_o = [2, 4, 254, 256, 258, 508, 510, 600]
        gaps_l = [1, 2, 126, 127, 128, 129, 254, 255, 300, 1000, -1, -2, -127, -128, -129, -256, -300]
        for _ in range(n):
            first = rng.choice([1, 40, 2000])
            line = first + rng.choice([0, 0, 3, 200])
            off = rng.choice([0, 0, 0, 6, 300])
            t = [(off, line)]
            for _ in range(rng.randrange(0, 4)):
                off += rng.choice(gaps_o)
                line += rng.choice(gaps_l)
                t.append((off, line))
            out.append(("__obj__", {"co_linetable": t, "co_firstlineno": first, "co_code": bytes(off + rng.choice([2, 10, 300]))}))
        return out


def table310_ok(self):
    t = self.co_linetable
    n = Len(t)
    return And(n >= 1, t[0][0] >= 0,
               ForAll(lambda j: Implies(And(0 <= j, j + 1 < n), And(t[j][0] < t[j + 1][0], t[j][1] != t[j + 1][1]))),
               Len(self.co_code) > t[n - 1][0])


def t310(_old_self):
    return _old_self.co_linetable


def end_of(_old_self, k):
    t = t310(_old_self)
    n = Len(t)
    return If(k + 1 < n, t[k + 1][0], Len(_old_self.co_code))


def on_yield310(addr, line, _old_self, _env):
    i = _env.get("i")
    if i is None:
        return False          # before the first entry (the "no line" prefix) the reader must not yield anything
    t = t310(_old_self)
    return And(0 <= i, i < Len(t), addr == t[i][0], line == t[i][1])


def outer310(co_linetable, prev_line_number, table, code_size, _old_self, _k):
    """before entry _k: the reader has yielded entries 0.._k-1, stands at the start of entry _k on the line of entry _k-1"""
    t = t310(_old_self)
    n = Len(t)
    return And(code_size == Len(_old_self.co_code), Len(table) == n,
               co_linetable.A == If(_k < n, t[_k][0], Len(_old_self.co_code)),
               co_linetable.L == If(_k >= 1, t[_k - 1][1], _old_self.co_firstlineno), prev_line_number == co_linetable.L,
               co_linetable.N == _k, If(_k >= 1, And(co_linetable.HL, co_linetable.LAST == co_linetable.L), Not(co_linetable.HL)))


def in_emit(co_linetable, length, line_diff, i, offset, line_number, _old_self):
    """inside emit_range for entry i: what is still owed plus what the reader has seen make up the entry's range and line;
    the entry is yielded exactly once, at the first non-empty pair"""
    t = t310(_old_self)
    A, L = co_linetable.A, co_linetable.L
    yielded = And(co_linetable.N == i + 1, co_linetable.HL, co_linetable.LAST == t[i][1], L == t[i][1], line_diff == 0)
    pending = And(co_linetable.N == i, If(i >= 1, And(co_linetable.HL, co_linetable.LAST == t[i - 1][1]), Not(co_linetable.HL)))
    return And(0 <= i, i < Len(t), offset == t[i][0], line_number == t[i][1],
               A + length == end_of(_old_self, i), L + line_diff == line_number, length >= 0, A >= offset,
               Implies(A == offset, length > 0),
               If(A == offset, pending, yielded))


def reference_reader310(data, first):
    """dis.findlinestarts of CPython 3.10 over co_lines() on a raw co_linetable"""
    out, end, line, last = [], 0, first, None
    for a, b in zip(data[0::2], data[1::2]):
        if b == 128:
            end += a
            continue
        line += b - 256 if b >= 128 else b
        if a:
            if line != last:
                out.append((end, line))
                last = line
            end += a
    return out, end


def native_encoder310_check(config, inputs):
    import xdis.codetype.code310 as C
    s = inputs["self"]
    t = [tuple(x) for x in s.co_linetable]
    first = s.co_firstlineno
    code = bytes(s.co_code)
    if not t or t[0][0] < 0 or not all(a[0] < b[0] and a[1] != b[1] for a, b in zip(t, t[1:])) or len(code) <= t[-1][0]:
        return None
    obj = C.Code310.__new__(C.Code310)
    obj.co_linetable = list(t)
    obj.co_firstlineno = first
    obj.co_code = code
    try:
        obj.encode_lineno_tab()
    except Exception as e:
        return {"violated": ["raises:%s" % type(e).__name__], "exception": repr(e)}
    data = bytes(obj.co_linetable)
    got, end = reference_reader310(data, first)
    bad = []
    if got != t:
        bad.append("reader(%r) == %r, table %r" % (list(data)[:24], got[:6], t[:6]))
    if end != len(code):
        bad.append("ranges end at %d, code has %d bytes" % (end, len(code)))
    return {"violated": bad, "result": repr(list(data)[:40])}


CODE310 = "xdis.codetype.code310:Code310.encode_lineno_tab"
contract(CODE310, params={"self": Code310WithTable()},
         requires=lambda self: table310_ok(self),
         accumulators={"co_linetable": AccSpec(first=lambda self: self.co_firstlineno, signed=True, on_yield=on_yield310, mode="lt310")},
         ensures=lambda self, _old_self: [
             ("every-entry-yielded", self.co_linetable.N == Len(t310(_old_self))),
             ("covers-the-code", self.co_linetable.A == Len(_old_self.co_code))],
         native_check=native_encoder310_check,
         loops={0: Loop("while length > 254",
                        invariant=lambda co_linetable, length, table, _old_self: And(
                            Len(table) == Len(t310(_old_self)), length >= 0, co_linetable.A + length == t310(_old_self)[0][0],
                            co_linetable.L == _old_self.co_firstlineno, co_linetable.N == 0, Not(co_linetable.HL)),
                        decreases=lambda length: length),
                1: Loop("for i, (offset, line_number) in enumerate(table)", invariant=outer310),
                ("emit_range", 0): Loop("while line_diff > 127",
                                        invariant=lambda co_linetable, length, line_diff, i, offset, line_number, _old_self: And(
                                            in_emit(co_linetable, length, line_diff, i, offset, line_number, _old_self), co_linetable.A == offset),
                                        decreases=lambda line_diff: line_diff),
                ("emit_range", 1): Loop("while line_diff < -127",
                                        invariant=lambda co_linetable, length, line_diff, i, offset, line_number, _old_self: And(
                                            in_emit(co_linetable, length, line_diff, i, offset, line_number, _old_self), co_linetable.A == offset, line_diff <= 127),
                                        decreases=lambda line_diff: 0 - line_diff),
                ("emit_range", 2): Loop("while length > 254",
                                        invariant=lambda co_linetable, length, line_diff, i, offset, line_number, _old_self: And(
                                            in_emit(co_linetable, length, line_diff, i, offset, line_number, _old_self), line_diff <= 127, line_diff >= -127),
                                        decreases=lambda length: length)})

ALL_CONTRACTS = list(CONTRACTS)
