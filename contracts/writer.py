"""Sidecar contracts for the bytecode-file writer (C13): xdis.load.write_bytecode_file writes, for the magic of
every final CPython release, exactly the header that version's reader (C06's specification, spec/pyc_header.py)
decodes back to the same (magic, timestamp, source size), followed by the bytes the marshaller returned and
nothing else, and closes the file; and the portable marshaller's code writers put the fields of a code object in
the order and width of the target layout (spec/marshal_fmt.code_layout), or refuse.
"""
import struct
import types
import z3
from pyvc.engine import Contract, Opaque, SObj, HSink, Loop
from pyvc.spec import spec, IntSeq
from pyvc.types import Maker, Int, Const
from pyvc.sym import And, Or, Not, Implies, If, Len, SInt, ZSeq, _ie
from contracts.common import Registry
from contracts.marsh import Marshaller, out_of, le32, seq_eq
from spec import pyc_header as H
from spec import marshal_fmt as MF

R = Registry()
contract = R.contract
CONTRACTS = R.contracts
configs_for = R.configs_for


class CodeArg(Maker):
    """the code object to be written: opaque; native (types.CodeType) or portable per configuration"""
    def __call__(self, eng, name):
        if eng.entry_cfg.get("_native"):
            return Opaque("code_obj", types.CodeType), []
        import xdis.codetype.code38 as C
        return Opaque("code_obj", C.Code38), []

    def examples(self, rng, n):
        return [compile("x = 1", "<s>", "exec")]


def writer_configs():
    out = {}
    for mi, v in sorted(H.FINAL_MAGICS.items()):
        if mi in (39170, 39171):
            continue          # 1.0/1.1 magics do not end in \r\n; see DESIGN (writer always writes \r\n)
        for native in (False, True):
            out["%d.%d/%d/%s" % (v[0], v[1], mi, "native" if native else "portable")] = {"_magic": mi, "_version": v, "_native": native, "magic_int": mi, "bytecode_path": "out.pyc"}
    return out


def _body(_engine, tag):
    for v, sq in getattr(_engine, "opaque_seqs", {}).values():
        if v.tag == tag:
            return ZSeq(sq)
    return None


def le_n(v, n):
    v = _ie(v) if not isinstance(v, int) else z3.IntVal(v)
    return [SInt((v / (1 << (8 * j))) % 256) for j in range(n)]


def pre23_portable(cfg):
    return (2, 0) <= tuple(cfg["_version"]) < (2, 3) and not cfg["_native"]


def compilation_ts_ok(magic_int):
    return True


def writer_post(code_obj, compilation_ts, filesize, _engine):
    cfg = _engine.entry_cfg
    if pre23_portable(cfg):
        return [("a portable 2.0-2.2 code object (16-bit counters) must be refused", False)]
    files = getattr(_engine, "opened", None) or []
    if len(files) != 1:
        return [("one-file-opened", False)]
    fp = files[0]
    body = _body(_engine, "dumps")
    if body is None:
        return [("marshalled-code-written", False)]
    fam = H.family(cfg["_version"])
    mi = cfg["_magic"]
    hdr = [mi % 256, mi // 256, 13, 10]
    if fam == "pep552":
        hdr += [0, 0, 0, 0]
    hdr += le_n(compilation_ts, 4)
    if fam != "ts":
        hdr += le_n(filesize, 4)
    out = ZSeq(fp.seq)
    n = len(hdr)
    res = [("path", fp.path == cfg["bytecode_path"]),
           ("closed", fp.closed is True),
           ("stream", out == ZSeq.of(hdr) + body),
           # what C06's reader decodes from these bytes
           ("reads-back-magic", H.le(out, 0, 2) == mi),
           ("reads-back-timestamp", H.le(out, 8 if fam == "pep552" else 4, 4) == compilation_ts)]
    if fam != "ts":
        res.append(("reads-back-size", H.le(out, 12 if fam == "pep552" else 8, 4) == filesize))
    if fam == "pep552":
        res.append(("reads-back-flags", H.le(out, 4, 4) == 0))
    return res


def _native_writer(config, inputs):
    import os
    import tempfile
    import xdis.load as L
    ts, size = inputs["compilation_ts"], inputs["filesize"]
    if not (1 <= ts < 2 ** 32 and 0 <= size < 2 ** 32):
        return None
    co = compile("x = 1", "<s>", "exec")
    d = tempfile.mkdtemp(prefix="xdis-verif-w-")
    p = os.path.join(d, "o.pyc")
    saved = L.marshal.dumps, L.xdis.marsh.dumps
    try:
        L.marshal.dumps = lambda c: b"BODY"
        L.xdis.marsh.dumps = lambda c: b"BODY"
        try:
            L.write_bytecode_file(p, co if config["_native"] else object(), config["_magic"], ts, size)
        except Exception as e:
            if isinstance(e, TypeError) and pre23_portable(config):
                return {"violated": [], "result": "refused (TypeError)"}
            return {"violated": ["raises:%s" % type(e).__name__], "exception": repr(e)}
        if pre23_portable(config):
            return {"violated": ["a portable 2.0-2.2 code object was written instead of refused"], "result": "written"}
        data = open(p, "rb").read()
    finally:
        L.marshal.dumps, L.xdis.marsh.dumps = saved
        import shutil
        shutil.rmtree(d, ignore_errors=True)
    fam = H.family(config["_version"])
    want = struct.pack("<H", config["_magic"]) + b"\r\n" + (b"\0\0\0\0" if fam == "pep552" else b"") + struct.pack("<I", ts) + (struct.pack("<I", size) if fam != "ts" else b"") + b"BODY"
    return {"violated": [] if data == want else ["stream(%r != %r)" % (data[:24], want[:24])], "result": repr(data[:24])}


EXT_MARSHAL_DUMPS = Contract("marshal:dumps", requires=lambda value, _engine: (value is _engine.entry_args["code_obj"]) and bool(_engine.entry_cfg["_native"]))
EXT_MARSHAL_DUMPS.external_args = ["value"]
EXT_MARSHAL_DUMPS.external_result = lambda eng, args, kwargs: Opaque("dumps", bytes)
EXT_XDIS_DUMPS = Contract("xdis.marsh:dumps", requires=lambda x, _engine: (x is _engine.entry_args["code_obj"]) and not _engine.entry_cfg["_native"])
EXT_XDIS_DUMPS.external_args = ["x", "version", "python_version"]
EXT_XDIS_DUMPS.external_result = lambda eng, args, kwargs: Opaque("dumps", bytes)

contract("xdis.load:write_bytecode_file", configs=writer_configs,
         params={"code_obj": CodeArg(), "compilation_ts": Int(lo=1), "filesize": Int()},
         requires=lambda compilation_ts, filesize: And(compilation_ts < (1 << 32), filesize >= 0, filesize < (1 << 32)),
         raises={TypeError: lambda magic_int, code_obj: (2, 0) <= tuple(H.FINAL_MAGICS[magic_int]) < (2, 3) and getattr(code_obj, "pytype", None) is not types.CodeType},
         ensures=writer_post,
         examples={"compilation_ts": lambda cfg, rng, n: [1, 255, 256, 65536, 2 ** 31, 2 ** 32 - 1, 1234567890],
                   "filesize": lambda cfg, rng, n: [0, 1, 255, 256, 65535, 2 ** 31, 2 ** 32 - 1]},
         native_check=_native_writer)

contract("xdis.load:write_bytecode_file", name="xdis.load:write_bytecode_file/out-of-range", configs=lambda: {k: v for k, v in writer_configs().items() if k.endswith("portable") and v["_magic"] in (62211, 3413)},
         params={"code_obj": CodeArg(), "compilation_ts": Int(lo=1), "filesize": Int()},
         requires=lambda compilation_ts, filesize: Or(compilation_ts >= (1 << 32), filesize < 0, filesize >= (1 << 32)),
         raises={struct.error: lambda compilation_ts, filesize, magic_int: Or(compilation_ts >= (1 << 32), And(H.family(H.FINAL_MAGICS[magic_int]) != "ts", Or(filesize < 0, filesize >= (1 << 32))))},
         ensures=lambda compilation_ts, magic_int: [("unrepresentable-header-raises", And(H.family(H.FINAL_MAGICS[magic_int]) == "ts", compilation_ts < (1 << 32)))],
         no_native_replay=True)

ALL_CONTRACTS = CONTRACTS + [EXT_MARSHAL_DUMPS, EXT_XDIS_DUMPS]


# ------------------------------------------------------------------------------------------------ code writers
# _Marshaller.dump_code3 against the code layout of the target version (spec/marshal_fmt.code_layout, the same
# table the reader t_code is verified against in C01).  Sub-objects are abstract: D(v) is "the bytes dump() appends
# for v"; the writer is proved to emit 'c', then each field of the layout in order: 32-bit words for the counters,
# D(field) for the objects.
def _chunk(eng, v):
    tab = eng.__dict__.setdefault("dump_chunks", {})
    ent = tab.get(id(v))
    if ent is None:
        ent = (v, z3.Const(eng.fresh("D!%s" % getattr(v, "tag", "v")), z3.SeqSort(z3.IntSort())))
        tab[id(v)] = ent
    return ent[1]


def _dump_effect(eng, vals, result, exc):
    sink = vals["self"]._write
    sink.seq = z3.Concat(sink.seq, _chunk(eng, vals["x"]))


DUMP_ABSTRACT = Contract("xdis.marsh:_Marshaller.dump", name="xdis.marsh:_Marshaller.dump/abstract", effect=_dump_effect,
                         note="induction hypothesis: the bytes written for a sub-object are abstract (D)")

CODE_CLASSES = {"3.0": ("xdis.codetype.code30", "Code3"), "3.8": ("xdis.codetype.code38", "Code38"), "3.10": ("xdis.codetype.code310", "Code310"),
                "3.11": ("xdis.codetype.code311", "Code311")}
INT_FIELDS = ("co_argcount", "co_posonlyargcount", "co_kwonlyargcount", "co_nlocals", "co_stacksize", "co_flags", "co_firstlineno")
OBJ_FIELDS = ("co_code", "co_consts", "co_names", "co_varnames", "co_freevars", "co_cellvars", "co_filename", "co_name", "co_lnotab", "co_linetable",
              "co_qualname", "co_exceptiontable")


class PortableCode(Maker):
    def __call__(self, eng, name):
        import importlib
        ver = eng.entry_cfg["_ver"]
        modname, clsname = CODE_CLASSES[ver]
        cls = getattr(importlib.import_module(modname), clsname)
        v = tuple(int(t) for t in ver.split("."))
        fields = {"__class__": cls}
        hs = []
        for f in INT_FIELDS:
            if f == "co_posonlyargcount" and v < (3, 8):
                continue
            iv = z3.Int("%s.%s" % (name, f))
            fields[f] = SInt(iv)
        for f in OBJ_FIELDS:
            if f == "co_linetable" and v < (3, 10):
                continue
            if f == "co_lnotab" and v >= (3, 10):
                continue
            if f in ("co_qualname", "co_exceptiontable") and v < (3, 11):
                continue
            fields[f] = Opaque(f)
        return SObj(**fields), hs


def code3_post(self, x, _old_self, _engine):
    v = tuple(int(t) for t in _engine.entry_cfg["_ver"].split("."))
    want = _old_self.out + [ord("c")]
    for kind, f in MF.code_layout(v):
        if f == "co_lnotab" and v >= (3, 10):
            f = "co_linetable"
        val = getattr(x, f)
        if kind == "i32":
            want = want + le32(val)
        else:
            want = want + ZSeq(_chunk(_engine, val))
    return [("layout", seq_eq(out_of(self), want))]


contract("xdis.marsh:_Marshaller.dump_code3", configs={"3.0": {"_ver": "3.0"}, "3.8": {"_ver": "3.8"}, "3.10": {"_ver": "3.10"}},
         params={"self": Marshaller(), "x": PortableCode()}, ensures=code3_post, no_native_replay=True)

contract("xdis.marsh:_Marshaller.dump_code3", name="xdis.marsh:_Marshaller.dump_code3/refuses-3.11", configs={"3.11": {"_ver": "3.11"}},
         params={"self": Marshaller(), "x": PortableCode()}, raises={TypeError: lambda x: hasattr(x, "co_exceptiontable")},
         ensures=lambda self: [("a 3.11+ code object must be refused", False)], no_native_replay=True)


# ------------------------------------------------------------------------------------------------ Python 2 layout
# _Marshaller.dump_code2 against the 2.3-2.7 layout of spec/marshal_fmt.code_layout.  Python 2 wants byte strings in
# co_code, co_filename, co_name, co_lnotab and *inside* the names/varnames tuples: those go through dump_string, whose
# bytes for v are the abstract chunk S(v) (TYPE_STRING, length, bytes); every other object is D(v) as above.  The two
# name tuples have symbolic length; their per-entry loops carry invariants over the fold cat_s.
SCH = z3.Function("SCH", z3.IntSort(), z3.SeqSort(z3.IntSort()))     # bytes dump_string writes for the abstract string with this handle
NM = z3.Function("NM", z3.IntSort(), z3.IntSort(), z3.IntSort())     # handle of entry i of tuple w (0: co_names, 1: co_varnames)


@spec
def cat_s(w: int, k: int) -> IntSeq:
    """the bytes dump_string writes for the first k entries of tuple w, in order"""
    if k <= 0:
        return []
    return cat_s(w, k - 1) + SCH(NM(w, k - 1))


def _schunk(eng, v):
    if isinstance(v, SInt):
        return SCH(_ie(v))
    tab = eng.__dict__.setdefault("dump_string_chunks", {})
    ent = tab.get(id(v))
    if ent is None:
        ent = (v, z3.Const(eng.fresh("S!%s" % getattr(v, "tag", "v")), z3.SeqSort(z3.IntSort())))
        tab[id(v)] = ent
    return ent[1]


def _dump_string_effect(eng, vals, result, exc):
    sink = vals["self"]._write
    sink.seq = z3.Concat(sink.seq, _schunk(eng, vals["x"]))


DUMP_STRING_ABSTRACT = Contract("xdis.marsh:_Marshaller.dump_string", name="xdis.marsh:_Marshaller.dump_string/abstract", effect=_dump_string_effect,
                                note="the bytes dump_string writes for a value are abstract (S / SCH)")
PY2_STRING_FIELDS = ("co_code", "co_filename", "co_name", "co_lnotab")
PY2_STRING_TUPLES = ("co_names", "co_varnames")


_CUR = {}


class PortableCode2(Maker):
    """a 2.3-2.7 portable code object: counters symbolic, objects opaque, co_names / co_varnames tuples of *symbolic
    length* whose entries are abstract strings (handles NM(w, i))"""
    def __call__(self, eng, name):
        from xdis.codetype.code20 import Code2
        from pyvc.sym import SSeq
        _CUR["eng"] = eng       # loop invariants have no `_engine`; the chunk tables live on the engine of this unit
        fields = {"__class__": Code2}
        hs = []
        for f in ("co_argcount", "co_nlocals", "co_stacksize", "co_flags", "co_firstlineno"):
            fields[f] = SInt(z3.Int("%s.%s" % (name, f)))
        for f in ("co_code", "co_consts", "co_freevars", "co_cellvars", "co_filename", "co_name", "co_lnotab"):
            fields[f] = Opaque(f)
        for w, f in enumerate(PY2_STRING_TUPLES):
            n = z3.Int("%s.%s!len" % (name, f))
            hs.append(n >= 0)
            fields[f] = SSeq(n, (lambda i, w=w: SInt(NM(w, _ie(i)))), kind="tuple")
        return SObj(**fields), hs


def code2_want(x, old_out, eng, stop=None, k=None):
    """the bytes the 2.3-2.7 layout prescribes for x after old_out; with stop=(tuple field, k): up to and including the
    first k entries of that tuple (the state at the head of that tuple's loop)"""
    want = old_out + [ord("c")]
    for kind, f in MF.code_layout((2, 7)):
        val = getattr(x, f)
        if kind == "i32":
            want = want + le32(val)
        elif f in PY2_STRING_TUPLES:
            w = PY2_STRING_TUPLES.index(f)
            want = want + [ord("(")] + le32(Len(val))
            if stop == f:
                return want + cat_s(w, k)
            want = want + cat_s(w, Len(val))
        elif f in PY2_STRING_FIELDS:
            want = want + ZSeq(_schunk(eng, val))
        else:
            want = want + ZSeq(_chunk(eng, val))
    return want


def code2_post(self, x, _old_self, _engine):
    return [("layout", seq_eq(out_of(self), code2_want(x, _old_self.out, _engine)))]


contract("xdis.marsh:_Marshaller.dump_code2", configs={"2.7": {"_ver": "2.7"}},
         params={"self": Marshaller(), "x": PortableCode2()}, ensures=code2_post, no_native_replay=True, unfold_depth=2,
         loops={0: Loop("for name in x.co_names",
                        invariant=lambda self, x, _old_self, _k: out_of(self) == code2_want(x, _old_self.out, _CUR["eng"], "co_names", _k)),
                1: Loop("for name in x.co_varnames",
                        invariant=lambda self, x, _old_self, _k: out_of(self) == code2_want(x, _old_self.out, _CUR["eng"], "co_varnames", _k))})

import contracts.marsh as _CM
ALL_CONTRACTS = CONTRACTS + [EXT_MARSHAL_DUMPS, EXT_XDIS_DUMPS, DUMP_ABSTRACT, DUMP_STRING_ABSTRACT] + [c for c in _CM.CONTRACTS if c.qualname.startswith("_Marshaller.w_")]
