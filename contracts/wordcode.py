"""Sidecar contracts for xdis/wordcode.py and the word/byte-code unpackers + label finders of
xdis/cross_dis.py (C02, C04)."""
from pyvc.engine import Loop
from pyvc.types import Int, Bytes, IntSetList, ForAll
from pyvc.sym import And, Or, Not, Implies, If, Len, SSet
from contracts.common import Registry, SetOf, table_configs, REF, ctab, EXT, In, At, gen_code, tables
from spec import wordcode as W, jumps as J

R = Registry()
contract = R.contract
CONTRACTS = R.contracts
configs_for = R.configs_for

EVEN = [0, 1, 9, 90, 100, 110, 113, 114, 144, 143, 145, 255, 2, 70, 71, 93]


def w_yield(code, opc, k, extfn):
    return (2 * k, code[2 * k], If(code[2 * k] >= opc.HAVE_ARGUMENT, code[2 * k + 1] + extfn(k), None))


# ------------------------------------------------------------------------------------------------
# C02: 3.6 - 3.9 word-code unpacker == dis._unpack_opargs (pointwise: word k is at offset 2k).
contract(
    "xdis.wordcode:unpack_opargs_wordcode",
    kind="generator",
    configs=table_configs(lambda m: (3, 6) <= m.version_tuple < (3, 10)),
    params={"code": Bytes(alphabet=EVEN, maxlen=8, even=True)}, examples={"code": gen_code},
    requires=lambda code: And(Len(code) % 2 == 0, Len(code) >= 2),
    yield_count=lambda code: Len(code) // 2,
    yield_at=lambda code, opc, _k: w_yield(code, opc, _k, lambda k: W.w_ext(code, k, opc.HAVE_ARGUMENT, EXT(opc))),
    native_yields=lambda code, opc: W.decode_words(code, opc.HAVE_ARGUMENT, EXT(opc)),
    loops={1: Loop("for i in range(0, n, 2)",
                   invariant=lambda code, opc, extended_arg, _k, _ny: And(
                       _ny == _k, extended_arg >= 0, extended_arg % 256 == 0,
                       extended_arg == W.w_ext(code, _k, opc.HAVE_ARGUMENT, EXT(opc))))},
)

# C02: 3.10 (same _unpack_opargs as 3.6-3.9)
contract(
    "xdis.cross_dis:unpack_opargs_bytecode_310",
    kind="generator",
    configs=table_configs(lambda m: m.version_tuple[:2] == (3, 10)),
    params={"code": Bytes(alphabet=EVEN, maxlen=8, even=True)}, examples={"code": gen_code},
    requires=lambda code: And(Len(code) % 2 == 0, Len(code) >= 2),
    yield_count=lambda code: Len(code) // 2,
    yield_at=lambda code, opc, _k: w_yield(code, opc, _k, lambda k: W.w_ext(code, k, opc.HAVE_ARGUMENT, EXT(opc))),
    native_yields=lambda code, opc: W.decode_words(code, opc.HAVE_ARGUMENT, EXT(opc)),
    loops={0: Loop("for offset in range(0, n, 2)",
                   invariant=lambda code, opc, extended_arg, _k, _ny: And(
                       _ny == _k, extended_arg >= 0, extended_arg % 256 == 0,
                       extended_arg == W.w_ext(code, _k, opc.HAVE_ARGUMENT, EXT(opc))))},
)


# ------------------------------------------------------------------------------------------------
# C02: 3.11+ : xdis yields *every* word (inline CACHE words appear as opcode 0 = CACHE instructions, as
# the property describes), CPython's _unpack_opargs skips them.  Well-formedness of co_code (the "valid
# code object" of the statement), stated over CPython's own walk c_skip:
#   wf-caches: every inline cache word is 00 00 (co_code is the de-optimised form)
#   wf-ext   : EXTENDED_ARG is followed by an operand-taking instruction
# Under it the operand xdis folds equals CPython's c_ext-based operand at every instruction word.
def wf311(code, opc):
    ct = ctab(opc)
    ha = REF(opc).hasarg
    ext = EXT(opc)
    return And(
        Len(code) % 2 == 0, Len(code) >= 2,
        ForAll(lambda i: Implies(And(0 <= i, 2 * i < Len(code), W.c_skip(code, i, ct) > 0),
                                 And(At(code, 2 * i) == 0, At(code, 2 * i + 1) == 0))),
        ForAll(lambda i: Implies(And(0 <= i, 2 * i < Len(code), W.c_skip(code, i, ct) == 0, At(code, 2 * i) == ext),
                                 And(2 * i + 2 < Len(code), In(At(code, 2 * i + 2), ha)))))


def prev_is_ext(code, opc, k):
    return And(k >= 1, W.c_skip(code, k - 1, ctab(opc)) == 0, code[2 * k - 2] == EXT(opc))


contract(
    "xdis.cross_dis:unpack_opargs_bytecode_310",
    kind="generator",
    configs=table_configs(lambda m: m.version_tuple[:2] >= (3, 11)),
    params={"code": Bytes(alphabet=EVEN, maxlen=8, even=True)}, examples={"code": gen_code},
    requires=lambda code, opc: wf311(code, opc),
    yield_count=lambda code: Len(code) // 2,
    yield_at=lambda code, opc, _k: w_yield(code, opc, _k, lambda k: W.c_ext(code, k, REF(opc).hasarg, EXT(opc), ctab(opc))),
    loops={0: Loop("for offset in range(0, n, 2)",
                   invariant=lambda code, opc, extended_arg, _k, _ny: And(
                       _ny == _k, extended_arg >= 0, extended_arg % 256 == 0,
                       extended_arg == W.c_ext(code, _k, REF(opc).hasarg, EXT(opc), ctab(opc)),
                       Or(extended_arg == 0, prev_is_ext(code, opc, _k))))},
    name="xdis.cross_dis:unpack_opargs_bytecode_310/3.11+",
)


# ------------------------------------------------------------------------------------------------
# C02: < 3.6 byte code: 1- or 3-byte instructions, 16-bit little-endian operands, EXTENDED_ARG << 16.
# wf: the width walk ends exactly at len(code) (no truncated last instruction).
contract(
    "xdis.cross_dis:unpack_opargs_bytecode",
    kind="generator",
    configs=table_configs(lambda m: m.version_tuple < (3, 6)),
    params={"code": Bytes(alphabet=EVEN, maxlen=9)}, examples={"code": gen_code},
    requires=lambda code, opc: And(Len(code) >= 1, W.b_off(code, W.b_cnt(code, 0, opc.HAVE_ARGUMENT), opc.HAVE_ARGUMENT) == Len(code)),
    yield_count=lambda code, opc: W.b_cnt(code, 0, opc.HAVE_ARGUMENT),
    yield_at=lambda code, opc, _k: (
        W.b_off(code, _k, opc.HAVE_ARGUMENT),
        code[W.b_off(code, _k, opc.HAVE_ARGUMENT)],
        If(code[W.b_off(code, _k, opc.HAVE_ARGUMENT)] >= opc.HAVE_ARGUMENT, W.b_arg(code, _k, opc.HAVE_ARGUMENT, EXT(opc)), None)),
    native_yields=lambda code, opc: W.decode_bytes(code, opc.HAVE_ARGUMENT, EXT(opc)),
    loops={0: Loop("while offset < n",
                   invariant=lambda code, opc, offset, extended_arg, n, _ny: And(
                       n == Len(code), _ny >= 0, offset >= 0,
                       offset == W.b_off(code, _ny, opc.HAVE_ARGUMENT),
                       _ny + W.b_cnt(code, offset, opc.HAVE_ARGUMENT) == W.b_cnt(code, 0, opc.HAVE_ARGUMENT),
                       extended_arg >= 0, extended_arg % 65536 == 0,
                       extended_arg == W.b_ext(code, _ny, opc.HAVE_ARGUMENT, EXT(opc))),
                   decreases=lambda n, offset: n - offset)},
)


# ================================================================================================
# C04: label finders.  Result abstracted to the *set* of its elements (the code only appends and tests
# membership, both homomorphic w.r.t. that abstraction); postcondition: exactly the set of jump targets
# CPython's dis.findlabels computes (spec/jumps.py), for every code string, per opcode table.
def J_sets(opc):
    r = REF(opc)
    return r.hasjrel, r.hasjabs, r.backward, ctab(opc), r.caches_in_targets


def wlab_spec(code, opc, k):
    jrel, jabs, backward, ct, cit = J_sets(opc)
    scale = 2 if opc.version_tuple >= (3, 10) else 1
    return J.wlab(code, k, opc.HAVE_ARGUMENT, EXT(opc), scale, jrel, jabs, backward, ct, cit)


def clab_spec(code, opc, k):
    jrel, jabs, backward, ct, cit = J_sets(opc)
    return J.clab(code, k, REF(opc).hasarg, EXT(opc), jrel, jabs, backward, ct, cit)


def lab_spec(code, opc, k):
    return clab_spec(code, opc, k) if opc.version_tuple >= (3, 11) else wlab_spec(code, opc, k)


def native_set(v):
    return frozenset(v)


for _name, _target, _pred, _req in (
        ("xdis.wordcode:findlabels", "xdis.wordcode:findlabels", lambda m: (3, 6) <= m.version_tuple < (3, 11),
         lambda code, opc: And(Len(code) % 2 == 0, Len(code) >= 2)),
        ("xdis.wordcode:findlabels/3.11+", "xdis.wordcode:findlabels", lambda m: m.version_tuple >= (3, 11), wf311),
        ("xdis.cross_dis:findlabels_310", "xdis.cross_dis:findlabels_310", lambda m: m.version_tuple[:2] == (3, 10),
         lambda code, opc: And(Len(code) % 2 == 0, Len(code) >= 2)),
        ("xdis.cross_dis:findlabels_310/3.11+", "xdis.cross_dis:findlabels_310", lambda m: m.version_tuple >= (3, 11), wf311)):
    _loopvar = "offsets" if "wordcode" in _target else "labels"
    contract(
        _target, name=_name,
        configs=table_configs(_pred),
        params={"code": Bytes(alphabet=EVEN, maxlen=8, even=True)}, examples={"code": gen_code},
        requires=_req,
        result=IntSetList(),
        ensures=lambda code, opc, result: SetOf(result) == lab_spec(code, opc, Len(code) // 2),
        native_post=lambda code, opc, result: [("label-set", frozenset(result) == lab_spec(code, opc, len(code) // 2)),
                                               ("no-duplicates", len(set(result)) == len(result))],
        loops={0: Loop(None,
                       havoc={_loopvar: IntSetList()},
                       invariant=(lambda code, opc, offsets, _k: SetOf(offsets) == lab_spec(code, opc, _k)) if _loopvar == "offsets"
                       else (lambda code, opc, labels, _k: SetOf(labels) == lab_spec(code, opc, _k)))},
    )


# < 3.6
contract(
    "xdis.cross_dis:findlabels_pre_310",
    configs=table_configs(lambda m: m.version_tuple < (3, 6)),
    params={"code": Bytes(alphabet=EVEN, maxlen=9)}, examples={"code": gen_code},
    requires=lambda code, opc: And(Len(code) >= 1, W.b_off(code, W.b_cnt(code, 0, opc.HAVE_ARGUMENT), opc.HAVE_ARGUMENT) == Len(code)),
    result=IntSetList(),
    ensures=lambda code, opc, result: SetOf(result) == J.blab(code, W.b_cnt(code, 0, opc.HAVE_ARGUMENT), opc.HAVE_ARGUMENT, EXT(opc), REF(opc).hasjrel, REF(opc).hasjabs),
    native_post=lambda code, opc, result: [("label-set", frozenset(result) == J.blab(code, W.b_cnt(code, 0, opc.HAVE_ARGUMENT), opc.HAVE_ARGUMENT, EXT(opc), REF(opc).hasjrel, REF(opc).hasjabs))],
    loops={0: Loop("for offset, op, arg in unpack_opargs_bytecode(code, opc)",
                   havoc={"offsets": IntSetList()},
                   invariant=lambda code, opc, offsets, _k: SetOf(offsets) == J.blab(code, _k, opc.HAVE_ARGUMENT, EXT(opc), REF(opc).hasjrel, REF(opc).hasjabs))},
)
