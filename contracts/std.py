"""Sidecar contracts for xdis/std.py and the Bytecode wrappers (C20): plumbing of the opcode table and of
first_line into the verified stream driver, and pass-through of findlabels / findlinestarts."""
import z3
from pyvc.engine import Loop, SObj, Opaque, HMap
from pyvc.types import Int, Bytes, Record, Tok, Maker, OptInt, TripleOptFn, Const
from pyvc.sym import And, Or, Not, Implies, If, Len, SInt
from contracts.common import Registry, SetOf, REF, tables, gen_code, MapHas, MapAt, IsNone, OptVal
from contracts import wordcode as CW, decoder as CD, cross_dis as CX, lines as CL, bytecode as CB

R = Registry()
contract = R.contract
CONTRACTS = R.contracts
configs_for = R.configs_for


def api_configs(pred=lambda m: m.version_tuple >= (3, 6) and not m.is_pypy):
    import xdis.std as S
    out = {}
    for lb, m in tables().items():
        if pred(m):
            try:
                api = S.make_std_api(tuple(m.version_tuple[:2]))
            except Exception:
                continue        # make_std_api() has no table for this version name (1.2: named "1.1" in xdis)
            if api.opc is not m:
                continue
            out[lb] = {"self": api, "_opc": m}
    return out


class CodeRecord(Maker):
    """a code object as far as the wrappers look at it (no exception table: see requires of the driver contract)"""
    def __call__(self, eng, name):
        opc = eng.entry_cfg["_opc"]
        from pyvc import sym
        code, hs = sym.bytes_param(name + ".co_code")
        fields = dict(co_code=code, co_firstlineno=SInt(z3.Int(name + ".co_firstlineno")),
                      co_varnames=Opaque("co_varnames", tuple), co_names=Opaque("co_names", tuple), co_consts=Opaque("co_consts", tuple),
                      co_cellvars=Opaque("co_cellvars", tuple), co_freevars=Opaque("co_freevars", tuple),
                      co_name=Opaque("co_name", str), co_filename=Opaque("co_filename", str))
        if opc.version_tuple >= (3, 10):
            v, h2 = TripleOptFn()(eng, name + ".co_lines")
            fields["co_lines"] = v
            hs = hs + h2
        else:
            tab, h2 = sym.bytes_param(name + ".co_lnotab")
            fields["co_lnotab"] = tab
            hs = hs + h2
        return SObj(**fields), hs


def gi_requires(x, _engine):
    opc = _engine.entry_cfg["_opc"]
    pre = CD.drv_requires(x.co_code, opc)
    if opc.version_tuple >= (3, 13):
        pre = And(pre, CL.no_equal_neighbours(x))      # co_lines() of 3.12+ never repeats a line in adjacent ranges
    return pre


def gi_post(self, x, first_line, result, _locals, _any_k, _engine):
    """std get_instructions / Bytecode.get_instructions: the stream driver is invoked with the API's own opcode table,
    the code's own byte string, the line starts of the code and line_offset = first_line - co_firstlineno"""
    calls = (_engine.call_log or {}).get("xdis.bytecode:get_instructions_bytes", [])
    out = [("driver-invoked-once", len(calls) == 1)]
    if len(calls) != 1:
        return out
    a = calls[0]
    opc = _engine.entry_cfg["_opc"]
    out.append(("opcode-table-of-this-api", a["opc"] is opc))
    out.append(("code-bytes", a["bytecode"] is x.co_code))
    out.append(("tables", And(a["varnames"] is x.co_varnames, a["names"] is x.co_names, a["constants"] is x.co_consts)))
    ls = a["linestarts"]
    src = getattr(ls, "source", None)
    fl = (_engine.call_log or {}).get("xdis.cross_dis:findlinestarts", []) + (_engine.call_log or {}).get("xdis.opcodes.opcode_313:findlinestarts_313", [])
    out.append(("linestarts-of-this-code", isinstance(ls, HMap) and src is not None and any(c["code"] is x for c in fl)))
    want = 0 if first_line is None else None
    if first_line is None:
        out.append(("line_offset", a["line_offset"] == 0))
    else:
        out.append(("line_offset", a["line_offset"] == first_line - x.co_firstlineno))
    return out


contract(
    "xdis.std:_StdApi.get_instructions",
    configs=api_configs,
    params={"x": CodeRecord(), "first_line": Int()},
    requires=gi_requires,
    ensures=gi_post,
    no_native_replay=True,
)

contract(
    "xdis.std:_StdApi.get_instructions", name="xdis.std:_StdApi.get_instructions/first_line=None",
    configs=lambda: dict((k, dict(v, first_line=None)) for k, v in api_configs().items()),
    params={"x": CodeRecord()},
    requires=gi_requires,
    ensures=gi_post,
    no_native_replay=True,
)


contract(
    "xdis.std:_StdApi.findlabels",
    configs=lambda: dict((lb, {"self": c["self"], "_opc": c["_opc"]}) for lb, c in api_configs(lambda m: not m.is_pypy).items()),
    params={"code": Bytes(alphabet=CW.EVEN, maxlen=8, even=True)}, examples={"code": lambda cfg, rng, n: gen_code({"opc": cfg["_opc"]}, rng, n)},
    requires=lambda code, _engine: CD.finder_pre(code, _engine.entry_cfg["_opc"]),
    ensures=lambda code, result, _engine: SetOf(result) == CD.label_spec(code, _engine.entry_cfg["_opc"]),
    native_post=lambda code, result, _engine: [("label-set", frozenset(result) == CD.label_spec(code, _engine.entry_cfg["_opc"]))],
)

ALL_CONTRACTS = CW.CONTRACTS + CD.CONTRACTS + CX.CONTRACTS + CL.CONTRACTS + CB.CONTRACTS + CONTRACTS
