"""Re-run a stored counterexample against the real code: check.py Cnn --replay <path>."""
import importlib
import json
import sys
from . import runner


def main(path):
    with open(path) as f:
        d = json.load(f)
    det = d.get("details", {})
    print("replaying %s on %s" % (d.get("obligation"), d.get("unit")))
    if "inputs" not in det:
        print("no concrete inputs stored (no-failing-input-found); solver detail:", json.dumps(det)[:800])
        return 1
    import propdefs
    pd = propdefs.PROPS[d["property"]]
    target = d["unit"].split("[")[0]
    label = d["unit"][len(target) + 1:-1]
    for entry in pd.get("contracts", []):
        modname, tg = entry[0], entry[1]
        if tg == target:
            cmod = importlib.import_module(modname)
            c = [x for x in cmod.CONTRACTS if x.name == target][0]
            config = cmod.configs_for(c)[label] if hasattr(cmod, "configs_for") else {}
            rp = runner.native_replay(c, config, runner.unjson(det["inputs"]))
            print(json.dumps({k: rp.get(k) for k in ("violated", "result", "exception", "requires_ok")}, default=str))
            return 1 if rp["violated"] else 0
    print("unit not found")
    return 3
