"""Symbolic value domain of pyvc.

Concrete Python objects stand for themselves.  Symbolic values:

  SInt(e)         mathematical integer (z3 Int) -- exact for Python's int
  SBool(e)        boolean (z3 Bool)
  SOpt(isnone,v)  Optional[int]
  SEnum(idx,tbl)  tbl[idx] for a *concrete* table and a symbolic index (0 <= idx < len(tbl))
  SSeq            immutable sequence view: symbolic length + element function
  python tuples   may contain symbolic components

Bit operations are encoded over mathematical integers (DESIGN 2.3 item 1):
  x & mask  (mask a non-negative constant)  -> sum of ((x div 2^lo) mod 2^w) * 2^lo over the runs of mask
  x >> k, x << k (k a non-negative constant) -> div / mul by 2^k
  x | y     -> x + y after a *proved* side condition that the operands are bit-disjoint,
               else a 32-bit bit-vector round trip when both are provably in [0, 2^32)
"""
import z3


class Unsupported(Exception):
    """Construct outside the supported subset: the obligation is undecided, never a violation."""


class SVal(object):
    __slots__ = ()


def _ie(x):
    if isinstance(x, SInt):
        return x.e
    if isinstance(x, bool):
        return z3.IntVal(1 if x else 0)
    if isinstance(x, int):
        return z3.IntVal(x)
    if isinstance(x, SBool):
        return z3.If(x.e, z3.IntVal(1), z3.IntVal(0))
    if isinstance(x, SEnum):
        return x.as_int().e
    if isinstance(x, z3.ArithRef):
        return x
    raise Unsupported("not an integer value: %r" % (x,))


def _be(x):
    if isinstance(x, SBool):
        return x.e
    if isinstance(x, bool):
        return z3.BoolVal(x)
    if isinstance(x, z3.BoolRef):
        return x
    if isinstance(x, SInt):
        return x.e != 0
    if isinstance(x, int):
        return z3.BoolVal(x != 0)
    if isinstance(x, SEnum):
        return x.map(bool).as_bool().e
    raise Unsupported("not a boolean value: %r" % (x,))


def is_sym(v):
    if isinstance(v, SVal):
        return True
    if isinstance(v, tuple):
        return any(is_sym(x) for x in v)
    if isinstance(v, list) and len(v) < 64:
        return any(is_sym(x) for x in v)
    return False


def mask_runs(m):
    """Contiguous runs (lo, width) of the set bits of a non-negative int."""
    runs = []
    i = 0
    while m >> i:
        if (m >> i) & 1:
            lo = i
            while (m >> i) & 1:
                i += 1
            runs.append((lo, i - lo))
        else:
            i += 1
    return runs


class SInt(SVal):
    __slots__ = ("e",)

    def __init__(self, e):
        if isinstance(e, bool):
            e = int(e)
        self.e = z3.IntVal(e) if isinstance(e, int) else e

    def __repr__(self):
        return "SInt(%s)" % self.e

    # arithmetic ------------------------------------------------------
    def __add__(self, o): return SInt(self.e + _ie(o))
    __radd__ = __add__
    def __sub__(self, o): return SInt(self.e - _ie(o))
    def __rsub__(self, o): return SInt(_ie(o) - self.e)
    def __mul__(self, o): return SInt(self.e * _ie(o))
    __rmul__ = __mul__
    def __neg__(self): return SInt(-self.e)
    def __pos__(self): return self

    def __floordiv__(self, o):
        if isinstance(o, int) and not isinstance(o, bool) and o > 0:
            return SInt(self.e / z3.IntVal(o))
        raise Unsupported("floor division by a non-constant or non-positive divisor")

    def __mod__(self, o):
        if isinstance(o, int) and not isinstance(o, bool) and o > 0:
            return SInt(self.e % z3.IntVal(o))
        raise Unsupported("modulo by a non-constant or non-positive divisor")

    def __lshift__(self, o):
        if isinstance(o, int) and o >= 0:
            return SInt(self.e * z3.IntVal(1 << o))
        return SInt(self.e * pow2(_ie(o)))

    def __rlshift__(self, o):
        return SInt(_ie(o) * pow2(self.e))

    def __rshift__(self, o):
        if isinstance(o, int) and o >= 0:
            return SInt(self.e / z3.IntVal(1 << o))
        raise Unsupported("right shift by a symbolic amount")

    def __and__(self, o):
        if isinstance(o, bool):
            o = int(o)
        if isinstance(o, int) and o >= 0:
            acc = None
            for lo, w in mask_runs(o):
                t = (self.e / z3.IntVal(1 << lo)) % z3.IntVal(1 << w) if lo else self.e % z3.IntVal(1 << w)
                if lo:
                    t = t * z3.IntVal(1 << lo)
                acc = t if acc is None else acc + t
            return SInt(acc if acc is not None else z3.IntVal(0))
        raise Unsupported("bitwise and with a non-constant mask")
    __rand__ = __and__

    # comparisons ------------------------------------------------------
    def __lt__(self, o): return SBool(self.e < _ie(o))
    def __le__(self, o): return SBool(self.e <= _ie(o))
    def __gt__(self, o): return SBool(self.e > _ie(o))
    def __ge__(self, o): return SBool(self.e >= _ie(o))

    def __eq__(self, o):
        if o is None or isinstance(o, (str, bytes, tuple, list)):
            return False
        if isinstance(o, SOpt):
            return SBool(z3.And(z3.Not(o.isnone), self.e == o.val))
        if isinstance(o, SEnum):
            return o.__eq__(self)
        return SBool(self.e == _ie(o))

    def __ne__(self, o):
        r = self.__eq__(o)
        return (not r) if isinstance(r, bool) else SBool(z3.Not(r.e))

    __hash__ = None


def pow2(e):
    """2**e for a symbolic non-negative e: the spec function p2 (uninterpreted + unfolding + lemma)"""
    from . import spec as _spec
    r = _spec.p2(SInt(e) if not isinstance(e, SInt) else e)
    return r.e if isinstance(r, SInt) else z3.IntVal(r)


class SBool(SVal):
    __slots__ = ("e",)

    def __init__(self, e):
        self.e = z3.BoolVal(e) if isinstance(e, bool) else e

    def __repr__(self):
        return "SBool(%s)" % self.e

    def __and__(self, o): return SBool(z3.And(self.e, _be(o)))
    __rand__ = __and__
    def __or__(self, o): return SBool(z3.Or(self.e, _be(o)))
    __ror__ = __or__
    def __invert__(self): return SBool(z3.Not(self.e))
    def __eq__(self, o):
        if isinstance(o, (SBool, bool)):
            return SBool(self.e == _be(o))
        return SBool(_ie(self) == _ie(o))
    def __ne__(self, o):
        return SBool(z3.Not(self.__eq__(o).e))
    __hash__ = None

    def __bool__(self):
        raise Unsupported("python truth test of a symbolic boolean in a contract; use And/Or/Not/If")


class SOpt(SVal):
    """Optional[int]."""
    __slots__ = ("isnone", "val")

    def __init__(self, isnone, val):
        self.isnone = _be(isnone)
        self.val = _ie(val)

    def __repr__(self):
        return "SOpt(%s,%s)" % (self.isnone, self.val)

    def __eq__(self, o):
        if o is None:
            return SBool(self.isnone)
        if isinstance(o, SOpt):
            return SBool(z3.Or(z3.And(self.isnone, o.isnone), z3.And(z3.Not(self.isnone), z3.Not(o.isnone), self.val == o.val)))
        return SBool(z3.And(z3.Not(self.isnone), self.val == _ie(o)))

    def __ne__(self, o):
        return SBool(z3.Not(self.__eq__(o).e))
    __hash__ = None


def _same(a, b):
    try:
        return type(a) is type(b) and a == b or (isinstance(a, (int, str)) and isinstance(b, (int, str)) and a == b)
    except Exception:
        return False


class SEnum(SVal):
    """table[idx] with a concrete table and symbolic idx in range."""
    __slots__ = ("idx", "table")

    def __init__(self, idx, table):
        self.idx = _ie(idx)
        self.table = list(table)

    def __repr__(self):
        return "SEnum(%s, <%d entries>)" % (self.idx, len(self.table))

    def map(self, f):
        return SEnum(self.idx, [f(t) for t in self.table])

    def cond_for(self, pred):
        hits = [i for i, t in enumerate(self.table) if pred(t)]
        if not hits:
            return z3.BoolVal(False)
        if len(hits) == len(self.table):
            return z3.BoolVal(True)
        return z3.Or(*[self.idx == i for i in hits])

    def as_bool(self):
        return SBool(self.cond_for(bool))

    def as_int(self):
        vals = {}
        for i, t in enumerate(self.table):
            if isinstance(t, bool):
                t = int(t)
            if not isinstance(t, int):
                raise Unsupported("SEnum entry is not an int: %r" % (t,))
            vals.setdefault(t, []).append(i)
        items = sorted(vals.items(), key=lambda kv: -len(kv[1]))
        e = z3.IntVal(items[0][0])
        for v, idxs in items[1:]:
            e = z3.If(z3.Or(*[self.idx == i for i in idxs]), z3.IntVal(v), e)
        return SInt(e)

    def collapse(self):
        """Simplify when all entries are bool / int / identical."""
        t = self.table
        if all(isinstance(x, bool) for x in t):
            return self.as_bool()
        if all(isinstance(x, int) and not isinstance(x, bool) for x in t):
            return self.as_int()
        first = t[0]
        try:
            if all(type(x) is type(first) and x == first for x in t):
                return first
        except Exception:
            pass
        return self

    def __eq__(self, o):
        if isinstance(o, SEnum):
            if z3.eq(o.idx, self.idx):
                hits = [self.idx == i for i, (a, b) in enumerate(zip(self.table, o.table)) if _same(a, b)]
                return SBool(z3.Or(*hits) if hits else z3.BoolVal(False))
            if self.table is o.table or (len(self.table) == len(o.table) and all(_same(a, b) for a, b in zip(self.table, o.table))):
                groups = {}
                for i, t in enumerate(self.table):
                    try:
                        groups.setdefault(t, []).append(i)
                    except TypeError:
                        groups.setdefault(id(t), []).append(i)
                dups = [g for g in groups.values() if len(g) > 1]
                e = self.idx == o.idx
                if dups:
                    e = z3.Or(e, *[z3.And(z3.Or(*[self.idx == i for i in g]), z3.Or(*[o.idx == i for i in g])) for g in dups])
                return SBool(e)
            if len(self.table) * len(o.table) <= 4096:
                hits = [z3.And(self.idx == i, o.idx == j) for i, a in enumerate(self.table) for j, b in enumerate(o.table) if _same(a, b)]
                return SBool(z3.Or(*hits) if hits else z3.BoolVal(False))
            raise Unsupported("equality of two large symbolic table lookups")
        if is_sym(o):
            if not all(isinstance(t, int) for t in self.table):
                if isinstance(o, (SInt, SBool)):
                    hits = [z3.And(self.idx == i, _ie(o) == (int(t))) for i, t in enumerate(self.table) if isinstance(t, int)]
                    return SBool(z3.Or(*hits) if hits else z3.BoolVal(False))
                return SBool(z3.BoolVal(False))
            return SBool(self.as_int().e == _ie(o))
        return SBool(self.cond_for(lambda t: _same(t, o)))

    def __ne__(self, o):
        return SBool(z3.Not(self.__eq__(o).e))
    __hash__ = None


# ---------------------------------------------------------------------------
# helpers usable in contracts and specs (work on concrete values too)

def And(*xs):
    if all(isinstance(x, bool) for x in xs):
        return all(xs)
    return SBool(z3.And(*[_be(x) for x in xs]))


def Or(*xs):
    if all(isinstance(x, bool) for x in xs):
        return any(xs)
    return SBool(z3.Or(*[_be(x) for x in xs]))


def Not(x):
    if isinstance(x, bool):
        return not x
    return SBool(z3.Not(_be(x)))


def Implies(a, b):
    if isinstance(a, bool) and isinstance(b, bool):
        return (not a) or b
    return SBool(z3.Implies(_be(a), _be(b)))


def If(c, a, b):
    if isinstance(c, bool):
        return a if c else b
    return merge(_be(c), a, b)


def merge(c, a, b):
    """ite over values (c is a z3 Bool)."""
    if a is b:
        return a
    if isinstance(a, tuple) and isinstance(b, tuple) and len(a) == len(b):
        return tuple(merge(c, x, y) for x, y in zip(a, b))
    if a is None and b is None:
        return None
    if a is None or b is None or isinstance(a, SOpt) or isinstance(b, SOpt):
        def parts(v):
            if v is None:
                return z3.BoolVal(True), z3.IntVal(0)
            if isinstance(v, SOpt):
                return v.isnone, v.val
            return z3.BoolVal(False), _ie(v)
        an, av = parts(a)
        bn, bv = parts(b)
        return SOpt(z3.If(c, an, bn), z3.If(c, av, bv))
    if isinstance(a, (SBool, bool)) and isinstance(b, (SBool, bool)):
        return SBool(z3.If(c, _be(a), _be(b)))
    if isinstance(a, (SInt, int, SEnum)) and isinstance(b, (SInt, int, SEnum)):
        if isinstance(a, int) and isinstance(b, int) and a == b:
            return a
        return SInt(z3.If(c, _ie(a), _ie(b)))
    if not is_sym(a) and not is_sym(b):
        try:
            if type(a) is type(b) and a == b:
                return a
        except Exception:
            pass
    if isinstance(a, ZSeq) or isinstance(b, ZSeq):
        return ZSeq(z3.If(c, ZSeq.of(a).e, ZSeq.of(b).e))
    if isinstance(a, SSet) or isinstance(b, SSet):
        return SSet(z3.If(c, SSet.of(a).e, SSet.of(b).e))
    if isinstance(a, SSeq) and isinstance(b, SSeq):
        return SSeq(z3.If(c, _ie(a.length), _ie(b.length)), lambda i: merge(c, a.get(i), b.get(i)), kind=a.kind)
    raise Unsupported("cannot merge values %r / %r" % (a, b))


class SSeq(SVal):
    """Immutable sequence view: length (python int or z3 Int) and element function."""
    __slots__ = ("length", "get", "kind", "base")

    def __init__(self, length, get, kind="list", base=None):
        self.length = length
        self.get = get
        self.kind = kind      # 'bytes' | 'list' | 'tuple'
        self.base = base      # for parameter sequences: (name, arrays...) used when passed to spec functions

    def __repr__(self):
        return "SSeq(%s,len=%s)" % (self.kind, self.length)

    def len_e(self):
        return _ie(self.length)

    def __len__(self):
        raise Unsupported("python len() of a symbolic sequence in a contract; use Len()")

    def __getitem__(self, i):
        if isinstance(i, slice):
            raise Unsupported("slice of SSeq in contract")
        return self.get(_ie(i) if is_sym(i) else z3.IntVal(i))


def Len(s):
    if isinstance(s, ZSeq):
        return s.length()
    if not isinstance(s, SSeq) and hasattr(s, "length") and (hasattr(s, "items") or hasattr(s, "seqs")):
        return s.length
    if isinstance(s, SSeq):
        return SInt(s.len_e()) if not isinstance(s.length, int) else s.length
    return len(s)


PENDING_FACTS = []


def note_fact(e):
    """record a fact that is true by a type invariant (e.g. a byte read is in [0, 255]); the engine
    moves pending facts into the path condition at its next step"""
    PENDING_FACTS.append(e)


def drain_facts():
    out = list(PENDING_FACTS)
    del PENDING_FACTS[:]
    return out


def bytes_get(arr):
    def get(i):
        e = z3.Select(arr, i)
        note_fact(z3.And(e >= 0, e <= 255))
        return SInt(e)
    return get


def bytes_param(name):
    """Fresh symbolic bytes value: (SSeq, [hypotheses])."""
    arr = z3.Array(name, z3.IntSort(), z3.IntSort())
    n = z3.Int(name + "!len")
    s = SSeq(n, bytes_get(arr), kind="bytes", base=(name, arr, n))
    return s, [n >= 0]


class SSet(SVal):
    """Set of ints as Array Int->Bool."""
    __slots__ = ("e",)

    def __init__(self, e):
        self.e = e

    @staticmethod
    def of(v):
        if isinstance(v, SSet):
            return v
        e = z3.K(z3.IntSort(), z3.BoolVal(False))
        for x in sorted(v):
            e = z3.Store(e, z3.IntVal(x), z3.BoolVal(True))
        return SSet(e)

    def contains(self, x):
        return SBool(z3.Select(self.e, _ie(x)))

    def add(self, x):
        return SSet(z3.Store(self.e, _ie(x), z3.BoolVal(True)))

    def __eq__(self, o):
        return SBool(self.e == SSet.of(o).e)

    def __ne__(self, o):
        return SBool(z3.Not(self.e == SSet.of(o).e))
    __hash__ = None


def set_add(s, x):
    """s | {x} for python frozensets and symbolic sets alike (usable in specs)"""
    if isinstance(s, SSet) or is_sym(x):
        return SSet.of(s).add(x)
    return frozenset(s) | frozenset([x])


def byte_fact(e):
    """Range fact for an element read from a bytes value."""
    return z3.And(e >= 0, e <= 255)


class ZSeq(SVal):
    """finite sequence of ints as a z3 Seq(Int) term (ghost yields, spec lists)"""
    __slots__ = ("e",)

    def __init__(self, e=None):
        if e is None:
            e = z3.Empty(z3.SeqSort(z3.IntSort()))
        self.e = e

    @staticmethod
    def of(v):
        if isinstance(v, ZSeq):
            return v
        if isinstance(v, (list, tuple)):
            e = z3.Empty(z3.SeqSort(z3.IntSort()))
            parts = [z3.Unit(_ie(x)) for x in v]
            if len(parts) == 1:
                return ZSeq(parts[0])
            if parts:
                return ZSeq(z3.Concat(*parts))
            return ZSeq(e)
        raise Unsupported("not a sequence of ints: %r" % (v,))

    def __repr__(self):
        return "ZSeq(%s)" % self.e

    def __add__(self, o):
        return ZSeq(z3.Concat(self.e, ZSeq.of(o).e))

    def __radd__(self, o):
        return ZSeq(z3.Concat(ZSeq.of(o).e, self.e))

    def __eq__(self, o):
        return SBool(self.e == ZSeq.of(o).e)

    def __ne__(self, o):
        return SBool(z3.Not(self.e == ZSeq.of(o).e))
    __hash__ = None

    def __getitem__(self, i):
        return SInt(self.e[_ie(i)])

    def length(self):
        return SInt(z3.Length(self.e))


def Eq(a, b):
    """structural equality usable in contracts (python tuples compare component-wise)"""
    if isinstance(a, tuple) or isinstance(b, tuple):
        if not (isinstance(a, tuple) and isinstance(b, tuple)) or len(a) != len(b):
            return False
        parts = [Eq(x, y) for x, y in zip(a, b)]
        if all(isinstance(p, bool) for p in parts):
            return all(parts)
        return And(*parts)
    r = (a == b)
    return r
