"""pyvc symbolic executor: interprets the *real* function ASTs of /repo path by path against sidecar
contracts and emits named proof obligations (DESIGN 2).

Path exploration is by re-execution: a path is identified by its list of branch decisions; a run
replays a decision prefix, and at the first fresh symbolic branch checks both sides for feasibility,
queues the alternative and continues.  Every run starts from a fresh state, so no heap snapshotting
is needed.  Loops are cut at invariants, calls of functions that have a contract go through the
contract, everything else from /repo is inlined from its real AST.
"""
import ast
import os
import builtins
import functools
import hashlib
import inspect
import struct as _struct
import sys
import time
import types
import z3

from . import sym, extract
from .sym import (SVal, SInt, SBool, SOpt, SEnum, SSeq, Unsupported, _ie, _be, is_sym, merge)
from .spec import SSet, SpecFn, empty_set


# --------------------------------------------------------------------------------------------
# control-flow signals

class ReturnEx(Exception):
    def __init__(self, value):
        self.value = value


class BreakEx(Exception):
    pass


class ContinueEx(Exception):
    pass


class PathEnd(Exception):
    """this path ends here (loop body closed against the invariant, or infeasible)"""


class PyRaise(Exception):
    """a Python exception raised by the interpreted program"""
    def __init__(self, exc_type, value=None, node=None):
        self.exc_type = exc_type
        self.value = value
        self.node = node

    def __str__(self):
        return "PyRaise(%s)" % getattr(self.exc_type, "__name__", self.exc_type)


class Opaque(SVal):
    """A value the engine does not model (formatted text etc.).  May flow anywhere except into a
    branch condition or an obligation."""
    __slots__ = ("tag", "pytype", "src")

    def __init__(self, tag="?", pytype=None, src=None):
        self.tag = tag
        self.pytype = pytype
        self.src = src            # what the value was derived from (e.g. the bytes a text was decoded from)

    def __repr__(self):
        return "Opaque(%s)" % self.tag

    def _o(self, *a):
        return Opaque(self.tag)
    __add__ = __radd__ = __mod__ = __rmod__ = __mul__ = __getitem__ = _o

    def __eq__(self, o):
        raise Unsupported("comparison of an opaque value (%s)" % self.tag)
    __hash__ = None


# --------------------------------------------------------------------------------------------
# heap objects (fresh per run, mutated in place)

class HList(object):
    """list with concrete length, possibly symbolic elements"""
    def __init__(self, items):
        self.items = list(items)

    def __getitem__(self, i):
        return self.items[i]

    @property
    def length(self):
        return len(self.items)


class HHandleList(HList):
    """list of symbolic length whose elements are integer handles of abstract objects (z3 Seq Int).  An HList whose
    elements are all handles becomes one (class swap, in place, so aliases such as a reference-table slot keep pointing
    at it) when a cut loop mutates it; only `+=` / append of handles and the contract-side view `hseq` are defined:
    anything that would need the concrete items is Unsupported (undecided), never silently answered."""
    @property
    def items(self):
        raise Unsupported("concrete items of a handle list of symbolic length")

    @items.setter
    def items(self, v):
        raise Unsupported("concrete items of a handle list of symbolic length")

    @property
    def length(self):
        return sym.SInt(z3.Length(self.hseq))


def handle_seq_of_list(lst):
    """contract-side view of a list of handles as a z3 Seq(Int)"""
    if isinstance(lst, HHandleList):
        return sym.ZSeq(lst.hseq) if not isinstance(lst.hseq, sym.ZSeq) else lst.hseq
    if isinstance(lst, HList):
        return sym.ZSeq.of([_handle(x) for x in lst.items])
    raise Unsupported("not a list of object handles: %r" % (lst,))


class HPairDict(object):
    """dict built during the call whose keys and values are integer handles of abstract objects: recorded as the
    sequence key, value, key, value ... of its insertions, in order (z3 Seq Int).  Only `d[k] = v` is defined."""
    def __init__(self):
        self.hseq = z3.Empty(z3.SeqSort(z3.IntSort()))


def pair_seq_of_dict(d):
    if isinstance(d, HPairDict):
        return sym.ZSeq(d.hseq)
    raise Unsupported("not a dict of object handles: %r" % (d,))


class HSetList(object):
    """list abstracted to the set of its elements (only `in` / `append` are homomorphic and allowed)"""
    def __init__(self, sset):
        self.sset = sset

    @property
    def set(self):
        return self.sset


class HSymList(object):
    """list of symbolic length; elements are records of int/bool components, one z3 Seq(Int) per
    component (bools stored as 0/1)"""
    def __init__(self, name, kinds, pack, unpack, seqs=None):
        self.name = name
        self.kinds = kinds
        self.pack = pack          # list of SInt/SBool -> element value
        self.unpack = unpack      # element value -> list of SInt/SBool
        if seqs is None:
            seqs = [z3.Empty(z3.SeqSort(z3.IntSort())) for _ in kinds]
        self.seqs = seqs

    @property
    def n(self):
        return z3.Length(self.seqs[0])

    def _comp(self, s, k, i):
        e = s[i]
        return SInt(e) if k == "int" else SBool(e != 0)

    def get(self, i):
        return self.pack([self._comp(s, k, i) for s, k in zip(self.seqs, self.kinds)])

    def append(self, v):
        comps = self.unpack(v)
        self.seqs = [z3.Concat(s, z3.Unit(_ie(c) if k == "int" else z3.If(_be(c), z3.IntVal(1), z3.IntVal(0))))
                     for s, c, k in zip(self.seqs, comps, self.kinds)]

    def as_seq(self):
        seqs = list(self.seqs)
        kinds = self.kinds
        pack = self.pack
        comp = self._comp
        return SSeq(z3.Length(seqs[0]), lambda i: pack([comp(s, k, i) for s, k in zip(seqs, kinds)]), kind="list")

    def col(self, j):
        return sym.ZSeq(self.seqs[j])

    def __getitem__(self, i):
        return self.get(_ie(i))

    @property
    def length(self):
        return SInt(self.n)


class HIter(object):
    """iterator over an immutable sequence: shared cursor (seq, pos)"""
    def __init__(self, seq, pos=0):
        self.seq = seq
        self._pos = pos

    @property
    def pos(self):
        return self._pos if isinstance(self._pos, SInt) else SInt(self._pos)

    @property
    def data(self):
        return self.seq


class HEnum(object):
    """enumerate() over a shared iterator: yields (count, element) and advances the underlying cursor"""
    def __init__(self, base, start):
        self.base = base
        self.p0 = base.pos
        self.start = start


class PyLong(SVal):
    """an int value carrying the Python-2 'long' tag (xdis.cross_types.LongTypeForPython3): arithmetic on it
    gives plain ints"""
    __slots__ = ("v",)

    def __init__(self, v):
        self.v = v


class STupleSeq(SVal):
    """tuple of symbolic length whose elements are integer handles of abstract objects (z3 Seq Int)"""
    __slots__ = ("seq",)

    def __init__(self, seq=None):
        self.seq = seq if seq is not None else sym.ZSeq()

    @staticmethod
    def of(v):
        if isinstance(v, STupleSeq):
            return v
        if isinstance(v, tuple):
            return STupleSeq(sym.ZSeq.of([_handle(x) for x in v]))
        raise Unsupported("not a tuple of object handles: %r" % (v,))

    def concat(self, o):
        return STupleSeq(self.seq + o.seq)


def _handle(x):
    if isinstance(x, (SInt, int)) and not isinstance(x, bool):
        return x
    raise Unsupported("tuple element is not an abstract object handle")


class HRefTable(object):
    """marshal reference table / interned-string table: an unknown prefix of n0 entries, then the entries appended
    during the call (each remembered with the index it was stored at), interleaved with `extra` entries appended by
    callees that are used through their contracts"""
    def __init__(self, name, n0):
        self.name = name
        self.n0 = n0            # z3 Int: length at entry
        self.tail = []          # [index expr, value]
        self.extra = z3.IntVal(0)

    @property
    def length(self):
        return SInt(z3.simplify(self.n0 + len(self.tail) + self.extra))

    def slot_of(self, idx):
        ie = z3.simplify(_ie(idx))
        for k, (pos, _) in enumerate(self.tail):
            if z3.is_true(z3.simplify(pos == ie)):
                return k
        return None


class HFile(object):
    """binary file object open for reading: (data, pos)"""
    def __init__(self, seq, pos=0):
        self.seq = seq
        self._pos = pos
        self.closed = False

    @property
    def pos(self):
        return self._pos if isinstance(self._pos, SInt) else SInt(self._pos)

    @property
    def data(self):
        return self.seq


class AnyExc(Exception):
    """stands for 'some exception of an unknown subclass of Exception' raised by an external callee"""


CHR_TABLE = [chr(i) for i in range(256)]


def is_chr_enum(v):
    return isinstance(v, SEnum) and len(v.table) == 256 and v.table[65] == "A" and v.table == CHR_TABLE


class SChars(SVal):
    """a str / bytes value of known length whose character codes are (symbolic) ints in [0, 256)"""
    __slots__ = ("codes", "kind")

    def __init__(self, codes, kind="str"):
        self.codes = list(codes)
        self.kind = kind

    @staticmethod
    def of(v, kind=None):
        if isinstance(v, SChars):
            return v
        if is_chr_enum(v):
            return SChars([z3.simplify(v.idx)], "str")
        if isinstance(v, str) and all(ord(c) < 256 for c in v):
            return SChars([ord(c) for c in v], "str")
        if isinstance(v, (bytes, bytearray)):
            return SChars(list(v), "bytes")
        return None

    def __repr__(self):
        return "SChars(%s,%r)" % (self.kind, self.codes)


class HSink(object):
    """write-only byte sink (a writefunc such as list.append / file.write, or a file open for writing):
    everything written so far as one z3 Seq(Int) of byte values"""
    def __init__(self, name="sink", seq=None):
        self.name = name
        self.seq = seq if seq is not None else z3.Empty(z3.SeqSort(z3.IntSort()))
        self.closed = False
        self.nwrites = 0

    @property
    def out(self):
        return sym.ZSeq(self.seq)

    def put(self, v, eng, node=None):
        from . import sym as _s
        c = SChars.of(v)
        if c is not None:
            if c.codes:
                self.seq = z3.Concat(self.seq, *[z3.Unit(_ie(x)) for x in c.codes])
        elif isinstance(v, _s.ZSeq):
            self.seq = z3.Concat(self.seq, v.e)
        elif isinstance(v, Opaque):
            tab = eng.__dict__.setdefault("opaque_seqs", {})
            ent = tab.get(id(v))
            if ent is None:
                body = z3.Const(eng.fresh("%s!chunk" % (v.tag or "bytes")), z3.SeqSort(z3.IntSort()))
                tab[id(v)] = ent = (v, body)
                ln = eng.__dict__.get("opaque_lens", {}).get(id(v))
                if ln is not None:
                    eng.run.pc.append(z3.Length(body) == _ie(ln[1]))
            self.seq = z3.Concat(self.seq, ent[1])
        else:
            raise Unsupported("write of %s to a byte sink" % type(v).__name__)
        self.nwrites += 1


class HAcc(object):
    """a local byte string that is only ever appended to, tracked through a GHOST DECODER instead of its bytes: the state
    CPython's lnotab reader (dis.findlinestarts, <= 3.9) would be in after reading what has been appended so far:
        addr, line      running address / line
        has_last, last  the line of the last (address, line) pair it yielded
        nyield          how many pairs it yielded
    Each appended (address increment, line increment) pair advances that state; when the reader would yield, the
    contract's `on_yield` obligation is proved (which table entry the yielded pair must be)."""
    def __init__(self, name, first, signed, spec):
        self.name = name
        self.addr = z3.IntVal(0)
        self.line = _ie(first)
        self.has_last = z3.BoolVal(False)
        self.last = z3.IntVal(0)
        self.nyield = z3.IntVal(0)
        self.npairs = z3.IntVal(0)
        self.signed = signed
        self.spec = spec
        self.half = None

    def put(self, eng, codes, env_fn, lineno):
        for c in codes:
            c = _ie(c)
            if self.half is None:
                self.half = c
                continue
            a, b = self.half, c
            self.half = None
            eng.prove(z3.And(a >= 0, a <= 255, b >= 0, b <= 255), "acc-byte-range", lineno)
            if getattr(self.spec, "mode", "lnotab") == "lt310":
                self._put310(eng, a, b, env_fn, lineno)
                continue
            inc = z3.If(b >= 128, b - 256, b) if self.signed else b
            yields = z3.And(a != 0, z3.Or(z3.Not(self.has_last), self.line != self.last))
            if self.spec.on_yield is not None:
                env = dict(env_fn())
                env.update(addr=SInt(self.addr), line=SInt(self.line), nyield=SInt(self.nyield))
                env["_env"] = env
                goal = call_by_names(self.spec.on_yield, env)
                eng.prove(z3.Implies(yields, _be(goal)), "acc-yield", lineno)
            self.nyield = z3.simplify(z3.If(yields, self.nyield + 1, self.nyield))
            self.last = z3.simplify(z3.If(yields, self.line, self.last))
            self.has_last = z3.simplify(z3.Or(self.has_last, yields))
            self.addr = z3.simplify(self.addr + a)
            self.line = z3.simplify(self.line + inc)
            self.npairs = z3.simplify(self.npairs + 1)

    def _put310(self, eng, a, b, env_fn, lineno):
        """3.10 line table (Objects/lnotab_notes.txt, dis.findlinestarts over code.co_lines()): a pair is a range of `a` bytes
        whose line is the running line plus the signed `b` (b == -128: the range has no line and the running line stays);
        empty ranges only move the line; a line start is yielded at the start of a non-empty range whose line differs from the
        last one yielded"""
        noline = (b == 128)
        inc = z3.If(b >= 128, b - 256, b)
        new_line = z3.If(noline, self.line, self.line + inc)
        yields = z3.And(z3.Not(noline), a != 0, z3.Or(z3.Not(self.has_last), new_line != self.last))
        if self.spec.on_yield is not None:
            env = dict(env_fn())
            env.update(addr=SInt(self.addr), line=SInt(z3.simplify(new_line)), nyield=SInt(self.nyield))
            env["_env"] = env
            eng.prove(z3.Implies(yields, _be(call_by_names(self.spec.on_yield, env))), "acc-yield", lineno)
        self.nyield = z3.simplify(z3.If(yields, self.nyield + 1, self.nyield))
        self.last = z3.simplify(z3.If(yields, new_line, self.last))
        self.has_last = z3.simplify(z3.Or(self.has_last, yields))
        self.addr = z3.simplify(self.addr + a)
        self.line = z3.simplify(new_line)
        self.npairs = z3.simplify(self.npairs + 1)

    # views for contracts
    @property
    def A(self):
        return SInt(self.addr)

    @property
    def L(self):
        return SInt(self.line)

    @property
    def N(self):
        return SInt(self.nyield)

    @property
    def HL(self):
        return SBool(self.has_last)

    @property
    def LAST(self):
        return SInt(self.last)

    @property
    def pending(self):
        """would the reader yield (addr, line) at the end of the table?"""
        return SBool(z3.Or(z3.Not(self.has_last), self.line != self.last))


class AccSpec(object):
    def __init__(self, first, signed, on_yield=None, mode="lnotab"):
        self.first, self.signed, self.on_yield, self.mode = first, signed, on_yield, mode


class HMap(object):
    """dict int -> int given as parameter (read-only): has/val arrays"""
    def __init__(self, name):
        self.has = z3.Array(name + "!has", z3.IntSort(), z3.BoolSort())
        self.val = z3.Array(name + "!val", z3.IntSort(), z3.IntSort())

    def contains(self, k):
        return SBool(z3.Select(self.has, _ie(k)))

    def at(self, k):
        return SInt(z3.Select(self.val, _ie(k)))


class SObj(object):
    """record with a concrete attribute set and (possibly symbolic) field values"""
    def __init__(self, **fields):
        self.__dict__["_f"] = dict(fields)

    def __getattr__(self, k):
        try:
            return self.__dict__["_f"][k]
        except KeyError:
            raise AttributeError(k)

    def __setattr__(self, k, v):
        self.__dict__["_f"][k] = v


class ConstFn(object):
    """a callable input that returns a fixed (symbolic) value, e.g. code.co_lines"""
    def __init__(self, value):
        self.value = value


class SUnion(SVal):
    """tagged union of alternative values (e.g. False | None | int); resolved by forking when it is read"""
    __slots__ = ("tag", "alts")

    def __init__(self, tag, alts):
        self.tag = tag
        self.alts = list(alts)


class Closure(object):
    def __init__(self, node, frame, name, defaults, kwdefaults):
        self.node = node
        self.frame = frame
        self.name = name
        self.defaults = defaults
        self.kwdefaults = kwdefaults


GLOBAL_OVERRIDES = {}      # {module name: {global name: value}} -- configuration of host-dependent constants


class MethodOf(object):
    """a repo function bound to a symbolic instance"""
    def __init__(self, func, obj):
        self.func = func
        self.obj = obj


class SuperProxy(object):
    def __init__(self, obj, after_cls):
        self.obj = obj
        self.after = after_cls


class BoundMethod(object):
    def __init__(self, recv, name):
        self.recv = recv
        self.name = name


class Frame(object):
    def __init__(self, globs, parent=None, fname="?", modname="?"):
        self.vars = {}
        self.globs = globs
        self.parent = parent
        self.fname = fname
        self.modname = modname
        self.is_gen = False
        self.yields = None

    def lookup(self, name):
        f = self
        while f is not None:
            if name in f.vars:
                return f.vars[name]
            f = f.parent
        ov = GLOBAL_OVERRIDES.get(self.modname)
        if ov and name in ov:
            return ov[name]
        if name in self.globs:
            return self.globs[name]
        if hasattr(builtins, name):
            return getattr(builtins, name)
        raise PyRaise(NameError, name)


class Obligation(object):
    __slots__ = ("name", "kind", "hyps", "goal", "lineno", "status", "backend", "time_s", "model", "detail", "trace", "derived", "_extra", "unfold_depth")

    def __init__(self, name, kind, hyps, goal, lineno, detail="", trace=()):
        self.name = name
        self.kind = kind
        self.hyps = hyps
        self.goal = goal
        self.lineno = lineno
        self.status = None
        self.backend = None
        self.time_s = 0.0
        self.model = None
        self.detail = detail
        self.trace = tuple(trace)
        self.derived = set()
        self._extra = None
        self.unfold_depth = None


class Run(object):
    def __init__(self, prefix):
        self.prefix = prefix
        self.pos = 0
        self.trace = []
        self.pc = []
        self.derived = set()         # indices in pc of facts that were proved (asserted then assumed)
        self.seq = 0                 # ordinal of the next obligation on this path
        self.solver = None
        self.n_added = 0
        self.new_prefixes = []


class Loop(object):
    def __init__(self, fingerprint, invariant=None, decreases=None, havoc=None, unroll=None, ghost=None):
        self.fingerprint = fingerprint
        self.invariant = invariant
        self.decreases = decreases
        self.havoc = havoc or {}
        self.unroll = unroll
        self.ghost = ghost


class Contract(object):
    def __init__(self, target, params=None, requires=None, ensures=None, raises=None, kind="function",
                 yield_count=None, yield_at=None, yield_post=None, loops=None, result=None, effect=None,
                 inline=False, opaque=(), note="", exc_ensures=None, modifies=(),
                 yield_seq=0, yield_encode=None, yields_eq=None, native_yields=None, native_post=None, findings=(),
                 name=None, when=None, examples=None, external_args=(), result_pytype=None, externals=(), unfold_depth=None, no_native_replay=False, yield_fresh=None, yield_post_call=None, native_check=None, accumulators=None, handle_is=None, handle_dicts=False):
        self.handle_dicts = handle_dicts   # dict() in the function under contract builds a dict of abstract object handles (HPairDict)
        self.handle_is = handle_is         # (engine, handle, concrete object) -> SBool | None: identity of an abstract object handle with a sentinel
        self.accumulators = accumulators or {}   # {local name: AccSpec}: byte strings tracked through a ghost decoder (HAcc)
        self.native_check = native_check   # (config, inputs) -> [violated labels]: custom native replay of the real function
        self.target = target
        self.modname, self.qualname = target.split(":")
        self.params = params or {}
        self.requires = requires
        self.ensures = ensures
        self.raises = raises or {}
        self.kind = kind
        self.yield_count = yield_count
        self.yield_at = yield_at
        self.yield_post = yield_post
        self.loops = loops or {}
        self.result = result
        self.effect = effect
        self.inline = inline
        self.opaque = set(opaque)
        self.note = note
        self.exc_ensures = exc_ensures
        self.modifies = modifies
        self.yield_seq = yield_seq            # arity of the ghost sequence of yielded values (z3 Seq per component)
        self.yield_encode = yield_encode      # yielded value -> tuple of ints
        self.yields_eq = yields_eq            # args -> tuple of expected ZSeq (whole yielded sequence)
        self.native_yields = native_yields    # args -> expected python list (replay / adequacy)
        self.native_post = native_post        # args, result -> [(label, bool)] (replay)
        self.findings = list(findings)
        self.name = name or target          # unique key of the contract (several contracts may share a target)
        self.when = when                    # call-site applicability: lambda over call arguments
        self.external_args = list(external_args)
        self.no_native_replay = no_native_replay
        self.yield_fresh = yield_fresh          # maker of a fresh element for call sites (contracts by yield_post)
        self.yield_post_call = yield_post_call  # the part of yield_post assumed at call sites
        self.unfold_depth = unfold_depth     # rounds of definitional unfolding of spec functions per obligation
        self.externals = list(externals)     # assumed contracts of external callees (checked natively during replay)
        self.result_pytype = result_pytype   # python type of the unmodelled result of an external callee
        self.examples = examples            # {param: gen(config, rng, n)} domain-specific inputs for the bounded native search


def call_by_names(fn, avail):
    """call a contract lambda, passing available values by parameter name"""
    sig = inspect.signature(fn)
    args = []
    for p in sig.parameters.values():
        if p.name not in avail:
            raise Unsupported("contract expression needs %r which is not available here" % p.name)
        args.append(avail[p.name])
    return fn(*args)


def conjuncts(v, label=""):
    """contract result -> list of (label, z3 Bool)"""
    out = []
    if v is None:
        return out
    if isinstance(v, (list, tuple)):
        for i, x in enumerate(v):
            if isinstance(x, tuple) and len(x) == 2 and isinstance(x[0], str):
                for l2, e in conjuncts(x[1], x[0]):
                    out.append((l2, e))
            else:
                for l2, e in conjuncts(x, "%s%d" % (label + "." if label else "", i)):
                    out.append((l2, e))
        return out
    e = _be(v)
    if z3.is_and(e):
        for i, c in enumerate(e.children()):
            out += conjuncts(SBool(c), "%s/%d" % (label, i) if label else str(i))
        return out
    return [(label, e)]


MISSING = object()


class Engine(object):
    def __init__(self, contracts=None, feas_timeout_ms=400, max_paths=4000, max_unroll=600, log=None):
        self.contracts = contracts or {}
        self.feas_timeout_ms = feas_timeout_ms
        self.max_paths = max_paths
        self.max_unroll = max_unroll
        self.run = None
        self.obligations = []
        self.emitted = set()
        self.undecided = []          # (where, reason)
        self.covers = 0
        self.paths = 0
        self.assumed = set()         # textual assumptions used
        self.fresh_ctr = 0
        self.current = None          # contract under verification
        self.opaque_callees = set()
        self.call_depth = 0
        self.stats = {"feas_checks": 0, "feas_time": 0.0}
        self.inlined = set()

    # ---------------------------------------------------------------- fresh symbols
    def fresh(self, base):
        self.fresh_ctr += 1
        return "%s!%d" % (base, self.fresh_ctr)

    def fresh_int(self, base="v"):
        return SInt(z3.Int(self.fresh(base)))

    def fresh_bool(self, base="b"):
        return SBool(z3.Bool(self.fresh(base)))

    def fresh_opt(self, base="o"):
        return SOpt(z3.Bool(self.fresh(base + "!none")), z3.Int(self.fresh(base)))

    def assume(self, e):
        self.drain()
        e = _be(e) if not isinstance(e, z3.BoolRef) else e
        self.run.pc.append(e)

    # ---------------------------------------------------------------- branching
    def feasible(self, hyps, extra=None):
        """is pc (+ extra) satisfiable?  'unknown' counts as feasible.  Quantified hypotheses are left out
        (fewer hypotheses: a sound over-approximation of feasibility).  A fresh solver per query: z3's
        incremental mode was measured to be 6x slower on these formulas."""
        from .discharge import has_quantifier
        t0 = time.time()
        s = z3.Solver()
        s.set("timeout", self.feas_timeout_ms)
        s.add(*[h for h in hyps if not has_quantifier(h)])
        if extra is not None:
            s.add(extra)
        r = s.check()
        self.stats["feas_checks"] += 1
        self.stats["feas_time"] += time.time() - t0
        return r != z3.unsat

    def drain(self):
        if sym.PENDING_FACTS and self.run is not None:
            self.run.pc.extend(sym.drain_facts())

    def decide(self, c):
        if isinstance(c, bool):
            return c
        self.drain()
        c = z3.simplify(_be(c))
        if z3.is_true(c):
            return True
        if z3.is_false(c):
            return False
        run = self.run
        if run.pos < len(run.prefix):
            ch = run.prefix[run.pos]
        else:
            t = self.feasible(run.pc, c)
            f = self.feasible(run.pc, z3.Not(c)) if t else True
            if t and f:
                run.new_prefixes.append(run.trace + [False])
                ch = True
            elif t:
                ch = True
            elif f:
                ch = False
            else:
                raise PathEnd("infeasible")
        run.pos += 1
        run.trace.append(ch)
        run.pc.append(c if ch else z3.Not(c))
        return ch

    def truthy(self, v):
        """python truth value: bool or z3 Bool"""
        if isinstance(v, SBool):
            return v.e
        if isinstance(v, SInt):
            return v.e != 0
        if isinstance(v, SOpt):
            return z3.And(z3.Not(v.isnone), v.val != 0)
        if isinstance(v, SEnum):
            return v.cond_for(bool)
        if isinstance(v, SSeq):
            if isinstance(v.length, int):
                return v.length != 0
            return v.len_e() != 0
        if isinstance(v, HList):
            return len(v.items) != 0
        if isinstance(v, HSymList):
            return v.n != 0
        if isinstance(v, Opaque):
            raise Unsupported("truth value of an opaque value (%s)" % v.tag)
        if isinstance(v, (HSetList, HIter, HMap, SObj, Closure, BoundMethod)):
            if isinstance(v, HSetList):
                raise Unsupported("truth value of a list abstracted as a set")
            return True
        if isinstance(v, SSet):
            raise Unsupported("truth value of a symbolic set")
        return bool(v)

    def test(self, v):
        return self.decide(self.truthy(v))

    # ---------------------------------------------------------------- obligations
    def prove(self, goal, kind, lineno=0, detail=""):
        self.drain()
        pairs = conjuncts(goal if isinstance(goal, (list, tuple)) else SBool(_be(goal)) if not isinstance(goal, bool) else goal) if not isinstance(goal, bool) else [("", z3.BoolVal(goal))]
        for label, e in pairs:
            e = z3.simplify(e)
            nm = "%s%s@L%d" % (kind, ("/" + label) if label else "", lineno)
            # a path replays the decisions of its prefix: an obligation reached with the same decision
            # prefix was already emitted by an earlier path (same state, same formula)
            self.run.seq += 1
            key = (tuple(self.run.trace), self.run.seq, nm)
            if key not in self.emitted:
                self.emitted.add(key)
                ob = Obligation(nm, kind, list(self.run.pc), e, lineno, detail, self.run.trace)
                ob.derived = set(self.run.derived)
                ob.unfold_depth = getattr(self.current, "unfold_depth", None)
                self.obligations.append(ob)
            self.run.derived.add(len(self.run.pc))
            self.run.pc.append(e)

    def undecide(self, where, reason):
        self.undecided.append((where, reason))

    # ---------------------------------------------------------------- exploration driver
    def explore(self, thunk, where):
        work = [[]]
        n = 0
        while work:
            prefix = work.pop()
            self.run = Run(prefix)
            sym.drain_facts()
            n += 1
            self.paths += 1
            if n > self.max_paths:
                self.undecide(where, "path explosion (> %d paths)" % self.max_paths)
                break
            if getattr(self, "deadline", None) and time.time() > self.deadline:
                self.undecide(where, "time budget of the unit exhausted after %d paths (undecided, not a violation)" % (n - 1))
                break
            t_path = time.time()
            try:
                thunk()
            except PathEnd:
                pass
            except Unsupported as e:
                self.undecide(where, "unsupported: %s" % e)
            except RecursionError:
                self.undecide(where, "engine recursion limit")
            work.extend(self.run.new_prefixes)
            if os.environ.get("PYVC_TRACE"):
                sys.stderr.write("path %d len=%d decisions=%s pc=%d obls=%d %.2fs queue=%d\n" % (n, len(self.run.trace), "".join("T" if x else "F" for x in self.run.trace)[-40:], len(self.run.pc), len(self.obligations), time.time() - t_path, len(work)))
        return n

    # ---------------------------------------------------------------- values
    def as_int(self, v, node=None):
        """coerce to SInt/int for arithmetic; None inside an Optional raises TypeError (path)"""
        if isinstance(v, bool):
            return int(v)
        if isinstance(v, (int, SInt)):
            return v
        if isinstance(v, PyLong):
            return self.as_int(v.v, node)
        if isinstance(v, SBool):
            return SInt(_ie(v))
        if isinstance(v, SOpt):
            if self.decide(v.isnone):
                raise PyRaise(TypeError, "None in arithmetic", node)
            return SInt(v.val)
        if isinstance(v, SEnum):
            c = v.collapse()
            if isinstance(c, SInt):
                return c
            return v.as_int()
        if v is None:
            raise PyRaise(TypeError, "None in arithmetic", node)
        raise Unsupported("integer expected, got %r" % (v,))

    def index_check(self, i, n, node=None):
        """normalise index i for a sequence of length n (python semantics); may raise IndexError"""
        if isinstance(i, int) and isinstance(n, int):
            if -n <= i < n:
                return i % n if n else i
            raise PyRaise(IndexError, "index out of range", node)
        ie, ne = _ie(i), _ie(n)
        if self.decide(z3.And(ie >= 0, ie < ne)):
            return i
        if self.decide(z3.And(ie < 0, ie >= -ne)):
            return SInt(ie + ne)
        raise PyRaise(IndexError, "index out of range", node)

    def seq_get(self, s, i, node=None):
        i = self.index_check(i, s.length, node)
        v = s.get(_ie(i))
        if s.kind == "bytes" and isinstance(v, SInt):
            self.run.pc.append(sym.byte_fact(v.e))
        return v

    def to_seq(self, v):
        """immutable sequence view of a value, or None"""
        if isinstance(v, SSeq):
            return v
        if isinstance(v, HSymList):
            return v.as_seq()
        if isinstance(v, HList):
            items = list(v.items)
            return SSeq(len(items), lambda i, items=items: self._concrete_index(items, i), kind="list")
        if isinstance(v, (bytes, bytearray)):
            return SSeq(len(v), lambda i, v=bytes(v): self._concrete_index(list(v), i), kind="bytes")
        if isinstance(v, (list, tuple)):
            items = list(v)
            return SSeq(len(items), lambda i, items=items: self._concrete_index(items, i), kind="tuple" if isinstance(v, tuple) else "list")
        if isinstance(v, range):
            return self.range_seq(v.start, v.stop, v.step)
        return None

    def _concrete_index(self, items, i):
        if isinstance(i, int):
            return items[i]
        i = z3.simplify(i)
        if z3.is_int_value(i):
            return items[i.as_long()]
        return SEnum(i, items).collapse()

    def range_seq(self, start, stop, step):
        if not isinstance(step, int) or step <= 0:
            raise Unsupported("range() with non-constant or non-positive step")
        if isinstance(start, int) and isinstance(stop, int):
            r = range(start, stop, step)
            return SSeq(len(r), lambda i: self._concrete_index(list(r), i) if len(r) < 4096 else SInt(start + _ie(i) * step), kind="list")
        s, e = _ie(start), _ie(stop)
        n = z3.If(e > s, (e - s + (step - 1)) / step, z3.IntVal(0))
        return SSeq(n, lambda i: SInt(s + _ie(i) * step), kind="list")

    # ---------------------------------------------------------------- binary operations
    def binop(self, op, a, b, node=None):
        if isinstance(a, Opaque) or isinstance(b, Opaque):
            return Opaque("binop")
        if isinstance(a, PyLong):
            a = a.v
        if isinstance(b, PyLong):
            b = b.v
        if isinstance(op, ast.Add) and (isinstance(a, SChars) or isinstance(b, SChars) or is_chr_enum(a) or is_chr_enum(b)):
            ca, cb = SChars.of(a), SChars.of(b)
            if ca is not None and cb is not None and ca.kind == cb.kind:
                return SChars(ca.codes + cb.codes, ca.kind)
            return Opaque("str+")
        if isinstance(a, STupleSeq) or isinstance(b, STupleSeq):
            if isinstance(op, ast.Add):
                return STupleSeq.of(a).concat(STupleSeq.of(b))
            raise Unsupported("operator on a tuple of symbolic length")
        if isinstance(a, SEnum) and not is_sym(b) and not all(isinstance(t, (int, bool)) for t in a.table):
            f = _NATIVE_BINOP[type(op)]
            return a.map(lambda t: _safe2(f, t, b)).collapse()
        if isinstance(b, SEnum) and not is_sym(a) and not all(isinstance(t, (int, bool)) for t in b.table):
            f = _NATIVE_BINOP[type(op)]
            return b.map(lambda t: _safe2(f, a, t)).collapse()
        if not is_sym(a) and not is_sym(b) and not isinstance(a, (HList, HSymList, HSetList)) and not isinstance(b, (HList, HSymList, HSetList)):
            try:
                return _NATIVE_BINOP[type(op)](a, b)
            except ZeroDivisionError:
                raise PyRaise(ZeroDivisionError, None, node)
            except TypeError as e:
                raise PyRaise(TypeError, str(e), node)
        if isinstance(op, ast.Add):
            # sequence concatenation
            if isinstance(a, tuple) and isinstance(b, tuple):
                return a + b
            if isinstance(a, str) or isinstance(b, str):
                return Opaque("str+")
            if isinstance(a, HList) and isinstance(b, (HList, tuple, list)):
                return HList(a.items + (b.items if isinstance(b, HList) else list(b)))
        if isinstance(op, ast.Mod) and isinstance(a, str):
            return Opaque("str%")
        if isinstance(op, ast.Mult) and (isinstance(a, (str, list, tuple)) or isinstance(b, (str, list, tuple))):
            raise Unsupported("sequence repetition with symbolic count")
        x, y = self.as_int(a, node), self.as_int(b, node)
        if isinstance(op, ast.Add):
            return SInt(_ie(x) + _ie(y))
        if isinstance(op, ast.Sub):
            return SInt(_ie(x) - _ie(y))
        if isinstance(op, ast.Mult):
            return SInt(_ie(x) * _ie(y))
        if isinstance(op, (ast.FloorDiv, ast.Mod)):
            if isinstance(y, int):
                if y == 0:
                    raise PyRaise(ZeroDivisionError, None, node)
                if y > 0:
                    return SInt(_ie(x) / y) if isinstance(op, ast.FloorDiv) else SInt(_ie(x) % y)
            raise Unsupported("division by a symbolic or negative divisor")
        if isinstance(op, ast.LShift):
            if isinstance(y, int):
                if y < 0:
                    raise PyRaise(ValueError, "negative shift count", node)
                return SInt(_ie(x) * (1 << y))
            if self.decide(_ie(y) < 0):
                raise PyRaise(ValueError, "negative shift count", node)
            return SInt(_ie(x) * sym.pow2(_ie(y)))
        if isinstance(op, ast.RShift):
            if isinstance(y, int):
                if y < 0:
                    raise PyRaise(ValueError, "negative shift count", node)
                return SInt(_ie(x) / (1 << y))
            raise Unsupported("right shift by a symbolic amount")
        if isinstance(op, ast.BitAnd):
            if isinstance(y, int) and y >= 0:
                return SInt(x) & y if not isinstance(x, SInt) else x & y
            if isinstance(x, int) and x >= 0:
                return (y if isinstance(y, SInt) else SInt(y)) & x
            raise Unsupported("bitwise and of two symbolic operands")
        if isinstance(op, ast.BitOr):
            return self.bitor(x, y, node)
        if isinstance(op, ast.Pow):
            if isinstance(x, int) and x == 2:
                return SInt(sym.pow2(_ie(y)))
            raise Unsupported("power with symbolic operands")
        raise Unsupported("operator %s on symbolic operands" % type(op).__name__)

    def valid(self, e):
        """is e valid under the current path condition? (used for side conditions; sound: only 'unsat' counts)"""
        self.drain()
        from .discharge import has_quantifier
        s = z3.Solver()
        s.set("timeout", 2000)
        s.add(*[h for h in self.run.pc if not has_quantifier(h)])   # validity from fewer hypotheses is still validity
        s.add(z3.Not(e))
        return s.check() == z3.unsat

    def bitor(self, x, y, node=None):
        xe, ye = _ie(x), _ie(y)
        if isinstance(x, int) and x == 0:
            return SInt(ye)
        if isinstance(y, int) and y == 0:
            return SInt(xe)
        def pow2_factor(e):
            e = z3.simplify(e)
            if z3.is_mul(e):
                for c in e.children():
                    if z3.is_int_value(c):
                        v = c.as_long()
                        if v > 0 and v & (v - 1) == 0:
                            return v.bit_length() - 1
            if z3.is_int_value(e) and e.as_long() > 0:
                v = e.as_long()
                return (v & -v).bit_length() - 1
            return None
        for lo, hi in ((xe, ye), (ye, xe)):
            hint = pow2_factor(hi)
            cands = ([hint] if hint else []) + [k for k in (8, 16, 3, 4, 6, 1, 2, 24, 32, 5, 7, 12, 18, 30, 36, 9, 10, 11, 13, 14, 15, 20, 28) if k != hint]
            for k in cands[:8] if hint else cands:
                m = 1 << k
                if self.valid(z3.And(lo >= 0, lo < m, hi >= 0, hi % m == 0)):
                    self.assumed.add("x | y == x + y justified by a proved bit-disjointness side condition (width %d) at line %s" % (k, getattr(node, "lineno", "?")))
                    return SInt(xe + ye)
        if self.valid(z3.And(xe >= 0, xe < 2 ** 32, ye >= 0, ye < 2 ** 32)):
            return SInt(z3.BV2Int(z3.Int2BV(xe, 32) | z3.Int2BV(ye, 32)))
        raise Unsupported("'|' whose operands are neither provably bit-disjoint nor provably 32-bit (line %s)" % getattr(node, "lineno", "?"))

    def compare(self, op, a, b, node=None):
        """returns python bool or SBool"""
        if isinstance(op, (ast.Is, ast.IsNot)):
            r = self.identical(a, b)
            if isinstance(op, ast.IsNot):
                r = sym.Not(r)
            return r
        if isinstance(op, (ast.In, ast.NotIn)):
            r = self.contains(b, a, node)
            if isinstance(op, ast.NotIn):
                r = sym.Not(r)
            return r
        if isinstance(a, Opaque) or isinstance(b, Opaque):
            raise Unsupported("comparison involving an opaque value")
        if not is_sym(a) and not is_sym(b):
            try:
                return _NATIVE_CMP[type(op)](a, b)
            except TypeError as e:
                raise PyRaise(TypeError, str(e), node)
        if isinstance(op, (ast.Eq, ast.NotEq)):
            r = self.equal(a, b)
            return sym.Not(r) if isinstance(op, ast.NotEq) else r
        # ordering
        if isinstance(a, tuple) and isinstance(b, tuple):
            return self.tuple_order(op, a, b)
        if isinstance(a, SEnum) and not is_sym(b):
            f = _NATIVE_CMP[type(op)]
            return SBool(a.cond_for(lambda t: f(t, b)))
        if isinstance(b, SEnum) and not is_sym(a):
            f = _NATIVE_CMP[type(op)]
            return SBool(b.cond_for(lambda t: f(a, t)))
        x, y = self.as_int(a, node), self.as_int(b, node)
        xe, ye = _ie(x), _ie(y)
        return SBool({ast.Lt: xe < ye, ast.LtE: xe <= ye, ast.Gt: xe > ye, ast.GtE: xe >= ye}[type(op)])

    def tuple_order(self, op, a, b):
        # lexicographic comparison of int tuples
        if len(a) == 0 or len(b) == 0:
            return _NATIVE_CMP[type(op)](len(a), len(b))
        strict = isinstance(op, (ast.Lt, ast.Gt))
        less = isinstance(op, (ast.Lt, ast.LtE))
        x, y = _ie(a[0]), _ie(b[0])
        rest = self.tuple_order(op, a[1:], b[1:])
        first = (x < y) if less else (x > y)
        return SBool(z3.Or(first, z3.And(x == y, _be(rest))))

    def identical(self, a, b):
        hook = getattr(getattr(self, "current", None), "handle_is", None)
        if hook is not None:
            for x, y in ((a, b), (b, a)):
                r = hook(self, x, y)
                if r is not None:
                    return r
        if isinstance(a, SOpt) and b is None:
            return SBool(a.isnone)
        if isinstance(b, SOpt) and a is None:
            return SBool(b.isnone)
        if b is None or a is None:
            if isinstance(a, SVal) or isinstance(b, SVal):
                if isinstance(a, SEnum):
                    return SBool(a.cond_for(lambda t: t is None))
                if isinstance(b, SEnum):
                    return SBool(b.cond_for(lambda t: t is None))
                return False
            return a is b
        if isinstance(a, (bool, SBool)) and isinstance(b, (bool, SBool)):
            return self.equal(a, b)
        if isinstance(a, bool) != isinstance(b, bool) and (isinstance(a, bool) or isinstance(b, bool)):
            if isinstance(a, (SInt, SOpt, int)) or isinstance(b, (SInt, SOpt, int)):
                return False          # True/False are never identical to an int object or None
        if isinstance(a, (SInt, SOpt, int)) and isinstance(b, (SInt, SOpt, int)) and (is_sym(a) or is_sym(b)):
            # identity of int objects: different values are never identical; equal values may or may not
            # be the same object (CPython caches only small ints) -> both outcomes are explored
            an = a.isnone if isinstance(a, SOpt) else z3.BoolVal(False)
            bn = b.isnone if isinstance(b, SOpt) else z3.BoolVal(False)
            if self.decide(z3.And(an, bn)):
                return True
            if self.decide(z3.Or(an, bn)):
                return False
            av = a.val if isinstance(a, SOpt) else _ie(a)
            bv = b.val if isinstance(b, SOpt) else _ie(b)
            if not self.decide(av == bv):
                return False
            self.assumed.add("`is` between two ints of equal value: both outcomes explored (object identity of ints is not determined by their value)")
            return self.decide(z3.Bool(self.fresh("same_object")))
        if is_sym(a) or is_sym(b):
            raise Unsupported("'is' on symbolic operands")
        return a is b

    def equal(self, a, b):
        """python == : python bool or SBool"""
        if isinstance(a, Opaque) or isinstance(b, Opaque):
            raise Unsupported("equality involving an opaque value")
        if isinstance(a, tuple) and isinstance(b, tuple):
            if len(a) != len(b):
                return False
            parts = [self.equal(x, y) for x, y in zip(a, b)]
            if all(isinstance(p, bool) for p in parts):
                return all(parts)
            return sym.And(*parts)
        if isinstance(a, tuple) != isinstance(b, tuple) and (isinstance(a, tuple) or isinstance(b, tuple)):
            if isinstance(a, (SEnum,)) or isinstance(b, (SEnum,)):
                pass
            else:
                return False
        if isinstance(a, SEnum):
            return a == b
        if isinstance(b, SEnum):
            return b == a
        if isinstance(a, SOpt):
            return a == b
        if isinstance(b, SOpt):
            return b == a
        if a is None or b is None:
            return a is b
        if isinstance(a, (SBool, bool)) and isinstance(b, (SBool, bool)):
            return SBool(_be(a) == _be(b))
        if isinstance(a, (SInt, SBool, int)) and isinstance(b, (SInt, SBool, int)):
            return SBool(_ie(a) == _ie(b))
        if isinstance(a, SSet) or isinstance(b, SSet):
            return a == b
        if isinstance(a, (str, bytes)) or isinstance(b, (str, bytes)):
            if is_sym(a) or is_sym(b):
                sq, cv = (a, b) if isinstance(a, SSeq) else (b, a)
                if isinstance(sq, SSeq):
                    if isinstance(cv, str) or sq.kind != "bytes":
                        return False
                    if isinstance(sq.length, int):
                        if sq.length != len(cv):
                            return False
                        return sym.And(*[self.equal(sq.get(z3.IntVal(i)), cv[i]) for i in range(len(cv))]) if len(cv) else True
                    raise Unsupported("equality of a symbolic sequence of symbolic length")
                return False
        if not is_sym(a) and not is_sym(b):
            return a == b
        raise Unsupported("equality of %r and %r" % (type(a).__name__, type(b).__name__))

    def contains(self, container, x, node=None):
        if isinstance(container, HSetList):
            return container.sset.contains(self.as_int(x, node))
        if isinstance(container, SSet):
            return container.contains(self.as_int(x, node))
        if isinstance(container, HMap):
            return container.contains(self.as_int(x, node))
        if isinstance(container, HList):
            container = container.items
        if isinstance(container, SEnum):
            if is_sym(x):
                raise Unsupported("membership in a symbolic table entry")
            return SBool(container.cond_for(lambda t: x in t))
        if isinstance(container, Opaque) or isinstance(x, Opaque):
            raise Unsupported("membership test involving an opaque value")
        if isinstance(container, str):
            if isinstance(x, SEnum):
                return SBool(x.cond_for(lambda t: t in container))
            if is_sym(x):
                raise Unsupported("substring test with symbolic operand")
            return x in container
        if isinstance(container, (list, tuple, set, frozenset, dict)) or hasattr(container, "keys"):
            if isinstance(x, SEnum):
                cont = container
                return SBool(x.cond_for(lambda t: _safe_in(t, cont)))
            if not is_sym(x) and not any(is_sym(c) for c in container):
                try:
                    return x in container
                except TypeError:
                    return False
            parts = []
            for c in container:
                r = self.equal(x, c)
                if r is True:
                    return True
                if r is not False:
                    parts.append(r)
            return sym.Or(*parts) if parts else False
        if isinstance(container, SSeq):
            if isinstance(container.length, int):
                items = [container.get(z3.IntVal(i)) for i in range(container.length)]
                return self.contains(items, x, node)
            raise Unsupported("membership in a sequence of symbolic length")
        raise Unsupported("membership test on %r" % type(container).__name__)


def _safe2(f, x, y):
    """entry-wise operation on a symbolic table lookup; entries on which it is undefined (infeasible ones,
    e.g. the MISSING marker of absent dict keys) stay undefined"""
    try:
        return f(x, y)
    except Exception:
        return MISSING


def _safe_in(t, cont):
    try:
        return t in cont
    except TypeError:
        return False


import operator as _o
_NATIVE_BINOP = {ast.Add: _o.add, ast.Sub: _o.sub, ast.Mult: _o.mul, ast.FloorDiv: _o.floordiv, ast.Mod: _o.mod,
                 ast.LShift: _o.lshift, ast.RShift: _o.rshift, ast.BitAnd: _o.and_, ast.BitOr: _o.or_, ast.BitXor: _o.xor,
                 ast.Pow: _o.pow, ast.Div: _o.truediv}
_NATIVE_CMP = {ast.Lt: _o.lt, ast.LtE: _o.le, ast.Gt: _o.gt, ast.GtE: _o.ge, ast.Eq: _o.eq, ast.NotEq: _o.ne}
