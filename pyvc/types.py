"""Makers of symbolic inputs for contract parameters: maker(engine, name) -> (value, [hypotheses]);
maker.examples(rng, n) -> concrete replay values for the bounded native search."""
import inspect
import itertools
import z3
from . import sym
from .sym import SInt, SBool, SOpt, SSeq
from .spec import SSet
from .engine import HSetList, HMap, HIter, SObj, HSymList

NATIVE = False
NATIVE_RANGE = range(-2, 30)

INTERESTING_BYTES = [0, 1, 2, 3, 0x3f, 0x40, 0x41, 0x7f, 0x80, 0x81, 0xbf, 0xc0, 0xfe, 0xff, 8, 16, 90, 100, 110, 144]


class Maker(object):
    def examples(self, rng, n):
        return []


class Int(Maker):
    def __init__(self, lo=None, hi=None, pool=None):
        self.lo, self.hi, self.pool = lo, hi, pool

    def __call__(self, eng, name):
        v = z3.Int(name)
        hs = []
        if self.lo is not None:
            hs.append(v >= self.lo)
        if self.hi is not None:
            hs.append(v <= self.hi)
        return SInt(v), hs

    def examples(self, rng, n):
        base = list(self.pool) if self.pool else [0, 1, 2, 3, 4, 5, 6, 7, 8, -1, -2, 10, 15, 16, 17, 31, 32, 63, 64, 127, 128, 255, 256, 257, 300, 1000, 65535, 65536, 2 ** 20 + 3, 2 ** 31 - 1]
        out = [x for x in base if (self.lo is None or x >= self.lo) and (self.hi is None or x <= self.hi)]
        lo = self.lo if self.lo is not None else -50
        hi = self.hi if self.hi is not None else 5000
        while len(out) < n:
            out.append(rng.randint(lo, hi))
        return out[:n]


class Bool(Maker):
    def __call__(self, eng, name):
        return SBool(z3.Bool(name)), []

    def examples(self, rng, n):
        return [False, True]


class OptInt(Maker):
    def __call__(self, eng, name):
        return SOpt(z3.Bool(name + "!none"), z3.Int(name)), []

    def examples(self, rng, n):
        return [None, 0, 1, 7]


class Bytes(Maker):
    def __init__(self, alphabet=None, maxlen=8, even=False):
        self.alphabet = alphabet
        self.maxlen = maxlen
        self.even = even

    def __call__(self, eng, name):
        return sym.bytes_param(name)

    def examples(self, rng, n):
        alpha = self.alphabet or INTERESTING_BYTES
        out = [b""]
        for ln in (1, 2):
            for t in itertools.product(alpha, repeat=ln):
                out.append(bytes(t))
                if len(out) >= n // 2:
                    break
        while len(out) < n:
            ln = rng.randint(0, self.maxlen)
            out.append(bytes(rng.choice(alpha) if rng.random() < 0.8 else rng.randrange(256) for _ in range(ln)))
        if self.even:
            out = [b if len(b) % 2 == 0 else b + bytes([rng.choice(alpha)]) for b in out]
        return out[:n]


class BytesIter(Maker):
    """iterator positioned anywhere in a symbolic bytes value"""
    def __init__(self, alphabet=None, maxlen=8):
        self.b = Bytes(alphabet, maxlen)

    def __call__(self, eng, name):
        s, hs = sym.bytes_param(name + "!data")
        p = z3.Int(name + "!pos")
        return HIter(s, SInt(p)), hs + [p >= 0, p <= s.len_e()]

    def examples(self, rng, n):
        out = []
        for b in self.b.examples(rng, n):
            out.append(("__iter__", b, rng.randint(0, len(b)) if rng.random() < 0.5 else 0))
        return out


class PairList(Maker):
    def __init__(self, sorted_first=False):
        self.sorted_first = sorted_first

    def __call__(self, eng, name):
        a = z3.Array(name + "!0", z3.IntSort(), z3.IntSort())
        b = z3.Array(name + "!1", z3.IntSort(), z3.IntSort())
        n = z3.Int(name + "!len")
        s = SSeq(n, lambda i: (SInt(z3.Select(a, i)), SInt(z3.Select(b, i))), kind="list", base=(name, a, b, n))
        return s, [n >= 0]

    def examples(self, rng, n):
        out = [[]]
        while len(out) < n:
            ln = rng.randint(0, 7)
            firsts = [rng.randint(0, 12) for _ in range(ln)]
            if self.sorted_first:
                firsts = sorted(set(firsts))
            out.append([(x, rng.randint(0, 30)) for x in firsts])
        return out


class IntSetList(Maker):
    def __call__(self, eng, name):
        return HSetList(SSet(z3.Array(name + "!set", z3.IntSort(), z3.BoolSort()))), []


class IntMap(Maker):
    def __call__(self, eng, name):
        return HMap(name), []

    def examples(self, rng, n):
        out = [{}]
        for _ in range(12):
            out.append(dict((rng.choice([0, 2, 3, 4, 6, 8, 9, 12]), rng.randint(0, 40)) for _ in range(rng.randint(1, 4))))
        return out


class Const(Maker):
    def __init__(self, v):
        self.v = v

    def __call__(self, eng, name):
        return self.v, []

    def examples(self, rng, n):
        return [self.v]


class Record(Maker):
    def __init__(self, **fields):
        self.fields = fields

    def __call__(self, eng, name):
        vals = {}
        hyps = []
        for k, m in self.fields.items():
            v, hs = m(eng, name + "." + k)
            vals[k] = v
            hyps += hs
        return SObj(**vals), hyps

    def examples(self, rng, n):
        cols = dict((k, m.examples(rng, n)) for k, m in self.fields.items())
        out = []
        for i in range(n):
            out.append(("__obj__", dict((k, rng.choice(v) if i else v[0]) for k, v in cols.items())))
        return out


def ForAll(fn):
    """universally quantified contract formula: ForAll(lambda i: ...).  Natively (replay) the bound
    variables range over NATIVE_RANGE and instances whose evaluation indexes out of range are skipped."""
    names = list(inspect.signature(fn).parameters)
    if NATIVE:
        for vals in itertools.product(NATIVE_RANGE, repeat=len(names)):
            try:
                if not fn(*vals):
                    return False
            except IndexError:
                continue
        return True
    ForAll.ctr += 1
    vs = [z3.Int("q!%s!%d" % (n, ForAll.ctr)) for n in names]
    body = sym._be(fn(*[SInt(v) for v in vs]))
    return SBool(z3.ForAll(vs, body))


ForAll.ctr = 0


class IdSeq(Maker):
    """immutable tuple of abstract elements (each element an integer identity), unbounded symbolic length.
    Used for co_consts / co_names style tables: only positions and identities matter."""
    def __call__(self, eng, name):
        a = z3.Array(name, z3.IntSort(), z3.IntSort())
        n = z3.Int(name + "!len")
        s = SSeq(n, lambda i: SInt(z3.Select(a, i)), kind="tuple", base=(name, a, n))
        return s, [n >= 0]

    def examples(self, rng, n):
        return [tuple(1000 + i for i in range(rng.randint(0, 6))) for _ in range(8)]


class IdTuple(Maker):
    """python tuple of abstract elements with *bounded* length 0..maxlen (the engine forks on the length).
    Bounded: stated wherever it is used."""
    def __init__(self, maxlen=2, base=2000, minlen=0):
        self.maxlen = maxlen
        self.base = base
        self.minlen = minlen

    def __call__(self, eng, name):
        ids = [SInt(z3.Int("%s!%d" % (name, i))) for i in range(self.maxlen)]
        if self.minlen == self.maxlen:
            return tuple(ids), []
        n = z3.Int(name + "!len")
        eng.run.pc.append(z3.And(n >= self.minlen, n <= self.maxlen))
        for L in range(self.minlen, self.maxlen):
            if eng.decide(n == L):
                return tuple(ids[:L]), []
        return tuple(ids), []

    def examples(self, rng, n):
        out = []
        for _ in range(14):
            L = rng.randint(0, 3)      # the native search is not limited to the bound of the symbolic proof
            out.append(tuple(self.base + rng.randint(0, 2) for _ in range(L)))
        return out


class OneOf(Maker):
    """value chosen by the engine among concrete alternatives (forks)"""
    def __init__(self, *alts):
        self.alts = alts

    def __call__(self, eng, name):
        t = z3.Int(name + "!alt")
        eng.run.pc.append(z3.And(t >= 0, t < len(self.alts)))
        for i, a in enumerate(self.alts[:-1]):
            if eng.decide(t == i):
                return a(eng, name) if isinstance(a, Maker) else (a, [])
        a = self.alts[-1]
        return a(eng, name) if isinstance(a, Maker) else (a, [])

    def examples(self, rng, n):
        out = []
        for a in self.alts:
            out += a.examples(rng, n) if isinstance(a, Maker) else [a]
        return out



class TripleOptFn(Maker):
    """zero-argument callable returning a symbolic list of (start: int, end: int, line: Optional[int])
    -- the shape of code.co_lines()"""
    def __call__(self, eng, name):
        from .engine import ConstFn
        a = [z3.Array("%s!%d" % (name, j), z3.IntSort(), z3.IntSort()) for j in range(4)]
        n = z3.Int(name + "!len")

        def get(i):
            return (SInt(z3.Select(a[0], i)), SInt(z3.Select(a[1], i)), SOpt(z3.Select(a[2], i) != 0, z3.Select(a[3], i)))
        s = SSeq(n, get, kind="list", base=(name,) + tuple(a) + (n,))
        return ConstFn(s), [n >= 0]

    def examples(self, rng, n):
        out = []
        for _ in range(40):
            rows = []
            start = 0
            for _i in range(rng.randint(0, 6)):
                end = start + rng.choice([2, 2, 4, 6])
                rows.append((start, end, rng.choice([None, 1, 2, 3, 300, 300])))
                start = end
            out.append(("__constfn__", rows))
        return out


def Col(fn_or_seq, j):
    """column j of a TripleOptFn value as an IntList-compatible sequence"""
    from .engine import ConstFn
    s = fn_or_seq.value if isinstance(fn_or_seq, ConstFn) else fn_or_seq
    if isinstance(s, SSeq):
        arr = s.base[1 + j]
        n = s.base[-1]
        return SSeq(n, lambda i: SInt(z3.Select(arr, i)), kind="list", base=(s.base[0] + "!col%d" % j, arr, n))
    rows = s() if callable(s) else s
    if j == 2:
        return [1 if r[2] is None else 0 for r in rows]
    if j == 3:
        return [0 if r[2] is None else r[2] for r in rows]
    return [r[j] for r in rows]


class Union(Maker):
    """tagged union of makers / constants (the engine resolves it by forking when the value is read)"""
    def __init__(self, *alts):
        self.alts = alts

    def __call__(self, eng, name):
        from .engine import SUnion
        t = z3.Int(eng.fresh(name + "!tag"))
        vals = []
        hyps = [t >= 0, t < len(self.alts)]
        for i, a in enumerate(self.alts):
            if isinstance(a, Maker):
                v, hs = a(eng, eng.fresh(name + "!alt%d" % i))
                hyps += hs
            else:
                v = a
            vals.append(v)
        return SUnion(t, vals), hyps


class Tok(Maker):
    """an abstract immutable python value of a given type: only its identity and type are modelled
    (used for plumbing proofs: "this field of the result is that field of the input")"""
    def __init__(self, pytype, example=None):
        self.pytype = pytype
        self.example = example

    def __call__(self, eng, name):
        from .engine import Opaque
        return Opaque(name, self.pytype), []

    def examples(self, rng, n):
        return [self.example] if self.example is not None else []


def Same(a, b):
    """identity of abstract values / python objects"""
    return a is b
