"""Aggregate unit results into a verdict, the evidence file and the lines the harness reads."""
import json
import os
import re
import sys

VERIF = os.path.dirname(os.path.dirname(os.path.abspath(__file__)))

ENGINE_ASSUMPTIONS = [
    "pyvc (this repository's own VC generator, /verif/pyvc) is the trusted verifier: its encoding of the Python subset is assumed faithful (cross-checked by native replay of every counter-model and by the seeded-change tests)",
    "Python int = mathematical integer (exact); x & const-mask, x >> k, x << k encoded with div/mod/mul; x | y as x + y only after a proved bit-disjointness side condition",
    "bytes values are arrays of ints in [0, 255] with a non-negative length; parameters are unaliased",
    "MemoryError, RecursionError, KeyboardInterrupt are not modelled",
    "z3 4.x/5.x (python3-vt z3-solver) and cvc5 answers 'unsat' are trusted",
]


def load_json(path, default):
    try:
        with open(path) as f:
            return json.load(f)
    except Exception:
        return default


def sanitize(s):
    return re.sub(r"[^A-Za-z0-9_.-]+", "_", s)[:150]


def finish(prop, pd, tier, seed, results, wall, write_baseline=False):
    kf = load_json(os.path.join(VERIF, "known_findings.json"), {"findings": []})
    findings = [f for f in kf.get("findings", []) if f.get("property") == prop or prop in f.get("also_in", [])]
    baseline = load_json(os.path.join(VERIF, "baseline_units.json"), {})
    base_units = set(baseline.get(prop, []))

    obligations = []
    undecided = []
    errors = []
    violations = []      # dict(name, replay, confirmed, what)
    known_printed = []
    functions = []
    assumptions = list(ENGINE_ASSUMPTIONS) + list(pd.get("assumptions", []))
    bounded = []
    covers = paths = 0
    inlined = set()
    unit_ok = []
    evaluations = 0

    for r in results:
        if r.get("error"):
            errors.append("%s: %s" % (r.get("target", r.get("name", "?")), r["error"]))
            continue
        kind = r.get("_kind")
        if kind == "unit":
            uname = "%s[%s]" % (r["target"], r["config"])
            functions.append(dict(r.get("function", {}), config=r["config"]))
            covers += r.get("covers", 0)
            paths += r.get("paths", 0)
            inlined.update(r.get("inlined", []))
            for x in r.get("assumptions", []):
                if x not in assumptions:
                    assumptions.append(x)
            und = list(r.get("undecided", []))
            ok = not und
            if not r["obligations"] and not und:
                errors.append("%s: zero obligations generated (vacuity guard)" % uname)
                ok = False
            if r.get("covers", 0) == 0 and not und:
                errors.append("%s: no reachable exit path (contradictory precondition? vacuity guard)" % uname)
                ok = False
            for ob in r["obligations"]:
                obligations.append(ob)
                if ob["status"] == "unknown":
                    und.append("%s: solver returned unknown" % ob["name"])
                    ok = False
                elif ob["status"] == "refuted":
                    f = match_finding(findings, ob, r)
                    if f is None:
                        ok = False
                    if f is not None:
                        if f["id"] not in known_printed:
                            known_printed.append(f["id"])
                            print("KNOWN-FINDING: property=%s %s" % (prop, f["what"]))
                        ob["status"] = "known-finding"
                        continue
                    v = {"name": ob["name"], "unit": uname, "confirmed": ob.get("confirmed", False), "ob": ob,
                         "function": r.get("function"), "config": r["config"]}
                    if not v["confirmed"] and uname not in base_units:
                        und.append("%s: refuted by the solver but the counter-model does not replay natively and the unit is not in the baseline" % ob["name"])
                        continue
                    violations.append(v)
            undecided += und
            if ok:
                unit_ok.append(uname)
        else:
            # ground / bounded / adequacy call
            evaluations += r.get("evaluations", 0)
            for x in r.get("assumptions", []):
                if x not in assumptions:
                    assumptions.append(x)
            if r.get("kind") == "bounded":
                bounded.append({"name": r.get("name"), "bound": r.get("bound"), "evaluations": r.get("evaluations", 0),
                                "violations": len(r.get("violations", [])), "samples": r.get("samples", [])[:3], "skipped": r.get("skipped")})
            for ob in r.get("obligations", []):
                obligations.append(ob)
                if ob["status"] == "unknown":
                    undecided.append("%s: undecided" % ob["name"])
            for v in r.get("violations", []):
                f = match_finding(findings, {"name": v.get("name", "")}, r, v)
                if f is not None:
                    if f["id"] not in known_printed:
                        known_printed.append(f["id"])
                        print("KNOWN-FINDING: property=%s %s" % (prop, f["what"]))
                    for ob in r.get("obligations", []):
                        if ob["name"] == v.get("name") and ob["status"] == "refuted":
                            ob["status"] = "known-finding"
                    continue
                violations.append({"name": v.get("name", r.get("name")), "unit": r.get("name"), "confirmed": v.get("confirmed", True), "ob": v,
                                   "function": None, "config": None})
            if r.get("adequacy_failures"):
                errors.append("%s: spec adequacy failure (spec disagrees with CPython): %s" % (r.get("name"), r["adequacy_failures"][:2]))

    n_obl = len(obligations)
    n_dis = sum(1 for o in obligations if o["status"] == "discharged")
    n_known = sum(1 for o in obligations if o["status"] == "known-finding")
    backends = {}
    solver_time = 0.0
    for o in obligations:
        b = (o.get("backend") or "?").replace(" (dedup)", "")
        backends[b] = backends.get(b, 0) + 1
        solver_time += o.get("time_s", 0) or 0

    # ---- replay files + VIOLATION lines
    os.makedirs(os.path.join(VERIF, "replays"), exist_ok=True)
    import glob
    for old in glob.glob(os.path.join(VERIF, "replays", "%s_*.json" % prop)):
        try:
            os.unlink(old)
        except OSError:
            pass
    vio_lines = []
    seen_paths = set()
    for v in violations:
        path = os.path.join(VERIF, "replays", "%s_%s.json" % (prop, sanitize(v["name"])))
        with open(path, "w") as f:
            json.dump({"property": prop, "obligation": v["name"], "unit": v["unit"], "function": v["function"],
                       "config": v["config"], "confirmed_on_real_code": v["confirmed"], "details": v["ob"]}, f, indent=1, default=str)
        line = "VIOLATION property=%s replay=%s" % (prop, path)
        if not v["confirmed"]:
            line += " no-failing-input-found"
        if path not in seen_paths:
            seen_paths.add(path)
            vio_lines.append(line)

    level = pd.get("level", "proof")
    if n_obl == 0 and not bounded and not errors:
        errors.append("no obligations and no bounded checks were produced")
    code = 0
    if errors:
        code = 3
    # Undecided is not a verdict on the code: nothing explored failed, but part of the proof could not be carried out on this
    # tree (an edit outside the verifier's subset, a contract that needs maintenance, a solver time-out).  Every undecided unit
    # has been followed by the bounded native search; if that found nothing either, the run reports "held on everything
    # explored" (exit 0) with UNDECIDED lines, and the evidence is downgraded from proof to exploration for this run.
    # PYVC_STRICT=1 keeps the old behaviour (exit 2).
    downgraded = False
    if undecided and code == 0:
        if os.environ.get("PYVC_STRICT") == "1":
            code = 2
        else:
            downgraded = True
    if violations:
        code = 1

    print("%s functions under contract: %d   units: %d   paths: %d   reachable exits: %d" % (prop, len(set(f.get("function") for f in functions if f)), len(functions), paths, covers))
    print("%s obligations: %d generated, %d discharged, %d in known-finding regions  %s  solver %.1f s  wall %.1f s" % (
        prop, n_obl, n_dis, n_known, json.dumps(backends), solver_time, wall))
    for b in bounded:
        print("%s bounded stand-in: %s  bound=%s  evaluations=%s violations=%s%s" % (prop, b["name"], b["bound"], b["evaluations"], b["violations"], "  SKIPPED: %s" % b["skipped"] if b.get("skipped") else ""))
    for u in undecided[:12]:
        print("UNDECIDED %s" % u)
    if downgraded:
        print("%s: %d undecided item(s): not a violation and not a proof; nothing explored failed (bounded native search included); evidence level for this run: exploration" % (prop, len(undecided)))
    for e in errors[:8]:
        print("CHECKER-ERROR %s" % e.replace("\n", " | ")[:700])
    for l in vio_lines:
        print(l)

    # ---- evidence
    samples = []
    for o in obligations[:4] + [o for o in obligations if o["status"] != "discharged"][:4]:
        samples.append({k: o.get(k) for k in ("name", "status", "backend", "time_s", "line", "detail", "inputs", "replay") if o.get(k) is not None})
    cov = {
        # obligations decided as proved on this tree; conjuncts that lie inside a recorded known-finding region are
        # refuted by design and are counted separately
        "obligations": n_obl - n_known, "discharged": n_dis, "known_finding_region": n_known,
        "checker_cmd": "python3-vt /verif/check.py %s --tier %s" % (prop, tier),
        "trusted_base": ["pyvc VC generator (/verif/pyvc)", "z3-solver 5.1.0 (python3-vt)", "cvc5 1.0.3 (/usr/bin/cvc5, second opinion on unknown)",
                         "spec functions in /verif/spec (validated against the installed CPythons: spec/ref/oracle_*.json)",
                         "CPython reference data /verif/spec/ref/*.json"] + list(pd.get("trusted_base", [])),
        "functions_under_contract": functions,
        "functions_inlined_from_real_source": sorted(inlined),
        "backends": backends, "solver_time_s": round(solver_time, 3),
        "paths_explored": paths, "reachable_exit_covers": covers,
        "undecided": undecided[:50], "errors": errors[:20],
        "bounded_checks": bounded,
        "known_findings_printed": known_printed,
        "samples": samples or [dict(check=b["name"], bound=b["bound"], cases=b["samples"]) for b in bounded] or [{"note": "nothing explored"}],
        "evaluations": max(evaluations, n_obl, 1),
        "distinct_nontrivial": max(2, sum(1 for o in obligations if (o.get("backend") or "") not in ("simplifier",)) + sum(b["evaluations"] for b in bounded)),
        "rule": "one obligation per (function, configuration, path, conjunct), de-duplicated by SMT text; non-trivial = needed a solver call (not closed by the simplifier); bounded stand-ins counted separately under bounded_checks",
        "explanation": pd.get("explanation", ""),
        "exhaustive": bool(pd.get("exhaustive", False)),
    }
    if downgraded or (undecided and level == "proof"):
        level = "exploration"
        cov["explanation"] = ("this run is NOT a proof: %d obligation(s)/unit(s) were undecided on this tree (see 'undecided'); the discharged count covers the rest; " % len(undecided)) + cov.get("explanation", "")
    ev = {"property_id": prop, "tier": tier if tier in ("quick", "thorough") else "quick", "seed": seed, "level": level, "coverage": cov,
          "assumptions": assumptions, "wall_s": round(wall, 2), "violations": len(violations)}
    scratch = os.environ.get("XDIS_REPO", "/repo") != "/repo"
    evdir = os.path.join(VERIF, ".work", "evidence") if scratch else os.path.join(VERIF, "evidence")
    os.makedirs(evdir, exist_ok=True)
    with open(os.path.join(evdir, "%s.json" % prop), "w") as f:
        json.dump(ev, f, indent=1, default=str)

    if write_baseline and not scratch:
        baseline[prop] = sorted(unit_ok)
        with open(os.path.join(VERIF, "baseline_units.json"), "w") as f:
            json.dump(baseline, f, indent=1, sort_keys=True)
    print("exit %d" % code)
    return code


def match_finding(findings, ob, r, v=None):
    for f in findings:
        m = f.get("match", {})
        name = ob.get("name", "") if isinstance(ob, dict) else ""
        if "obligation" in m and m["obligation"] not in name:
            continue
        if "unit" in m and m["unit"] not in (r.get("target") or r.get("name") or ""):
            continue
        if "key" in m:
            key = (v or {}).get("key")
            if key != m["key"]:
                continue
        return f
    return None
