"""AST interpreter part of pyvc (statements, expressions, calls, loop cutting, contracts)."""
import ast
import builtins
import functools
import inspect
import struct as _struct
import sys
import types
import z3

from . import sym, extract
from .sym import SVal, SInt, SBool, SOpt, SEnum, SSeq, Unsupported, _ie, _be, is_sym, merge
from .spec import SSet, SpecFn, empty_set
from .engine import _handle as engine_handle
from .engine import (HPairDict, HHandleList, PyLong, STupleSeq, HRefTable, Engine, ReturnEx, BreakEx, ContinueEx, PathEnd, PyRaise, Opaque, HList, HSetList, HSymList,
                     HIter, HMap, HFile, SObj, Closure, BoundMethod, Frame, Loop, Contract, call_by_names, conjuncts, MISSING, ConstFn, SUnion, HEnum, MethodOf, SuperProxy, SChars, HSink, AnyExc, HAcc)


def exc_matches(exc_type, handler_type):
    if isinstance(handler_type, tuple):
        rs = [exc_matches(exc_type, h) for h in handler_type]
        if any(r is True for r in rs):
            return True
        return None if any(r is None for r in rs) else False
    if exc_type is AnyExc:
        # an exception of unknown class (below Exception): caught for sure only by Exception / BaseException
        if handler_type in (Exception, BaseException):
            return True
        try:
            narrower = issubclass(handler_type, Exception)
        except TypeError:
            narrower = False
        if narrower:
            return None          # may or may not be caught: the caller forks
        return False
    try:
        return issubclass(exc_type, handler_type)
    except TypeError:
        return False


class Interp(Engine):

    # ======================================================================== top level
    def verify(self, contract, config=None, label=""):
        """Verify one function against its contract for one concrete configuration.
        config: dict of concrete parameter values (e.g. {'opc': module})."""
        fs = extract.find_function(contract.modname, contract.qualname)
        mod = extract.import_repo_module(contract.modname)
        for d in fs.node.decorator_list:
            dn = ast.unparse(d)
            if dn not in ("builtinify", "staticmethod", "classmethod"):
                self.undecide("%s[%s]" % (contract.target, label), "decorator @%s on the function under contract is not modelled: contract needs maintenance" % dn)
                return fs
        self.current = contract
        self.cur_fs = fs
        self.cur_label = label
        self.cur_loops = extract.loops_of(fs.node)
        where = "%s[%s]" % (contract.target, label)
        config = config or {}
        self.entry_cfg = config

        def thunk():
            self.fresh_ctr = 0
            self.call_log = {}
            frame = Frame(mod.__dict__, None, contract.qualname, contract.modname)
            frame.contract = contract
            frame.loops = self.cur_loops
            args = {}
            hyps = []
            extra_params = [x for x in (fs.node.args.vararg, fs.node.args.kwarg) if x is not None]
            for a in fs.node.args.posonlyargs + fs.node.args.args + fs.node.args.kwonlyargs + extra_params:
                nm = a.arg
                if nm in config:
                    args[nm] = config[nm]
                elif nm in contract.params:
                    v, hs = contract.params[nm](self, nm)
                    args[nm] = v
                    hyps += hs
                else:
                    raise Unsupported("no symbolic input declared for parameter %r" % nm)
            for h in hyps:
                self.run.pc.append(h)
            frame.vars.update(args)
            self.entry_args = dict((k, self.replay_copy(v)) for k, v in args.items())
            self.entry_snap = dict(("_old_" + k, self.snapshot(v)) for k, v in args.items())
            if contract.requires is not None:
                for _, e in conjuncts(call_by_names(contract.requires, dict(args, _engine=self))):
                    self.run.pc.append(e)
            is_gen = any(isinstance(n, (ast.Yield, ast.YieldFrom)) for n in _walk_fn(fs.node))
            frame.is_gen = is_gen
            frame.ny = 0
            frame.ys = tuple(sym.ZSeq() for _ in range(contract.yield_seq)) if contract.yield_seq else None
            self.root = frame
            result = None
            try:
                try:
                    self.exec_block(fs.node.body, frame)
                except ReturnEx as r:
                    result = r.value
            except PyRaise as pr:
                self.check_raise(contract, pr, args)
                return
            self.covers_path()
            avail = dict(args)
            avail.update(self.entry_snap)
            avail["result"] = result
            avail["_engine"] = self
            avail["_locals"] = dict(frame.vars)
            avail["_any_k"] = SInt(z3.Int(self.fresh("_any_k")))
            avail["_ny"] = frame.ny
            avail["_ys"] = frame.ys
            for kname, kv in frame.vars.items():
                if kname.startswith("_k"):
                    avail[kname] = kv
            ln = fs.node.end_lineno
            if is_gen and contract.yields_eq is not None:
                want = call_by_names(contract.yields_eq, avail)
                for j, (got, w) in enumerate(zip(frame.ys, want)):
                    self.prove(got == w, "yield-seq/%d" % j, ln)
            if is_gen:
                if contract.yield_count is not None:
                    cnt = call_by_names(contract.yield_count, avail)
                    self.prove(self.equal(frame.ny, cnt), "yield-count", ln)
            if contract.ensures is not None:
                self.prove(call_by_names(contract.ensures, avail), "post", ln)

        self.explore(thunk, where)
        return fs

    def replay_copy(self, v):
        """entry-state copy of a mutable input (for turning a counter-model into concrete inputs)"""
        if isinstance(v, HFile):
            return HFile(v.seq, v._pos)
        if isinstance(v, HIter):
            return HIter(v.seq, v._pos)
        if isinstance(v, SObj):
            c = SObj()
            for k2, v2 in v.__dict__["_f"].items():
                c.__dict__["_f"][k2] = self.replay_copy(v2) if isinstance(v2, (HFile, HIter)) else v2
            return c
        return v

    def snapshot(self, v):
        """entry value of a parameter for old(): immutable views of mutable heap objects"""
        if isinstance(v, (HIter, HFile)):
            return SObj(pos=v.pos, data=v.seq)
        if isinstance(v, SObj):
            c = SObj()
            c.__dict__["_f"].update(v.__dict__["_f"])
            # entry values of the mutable parts most contracts talk about
            for k2, v2 in list(v.__dict__["_f"].items()):
                if isinstance(v2, HSink):
                    c.__dict__["_f"]["out"] = v2.out
            fp = v.__dict__["_f"].get("fp")
            if isinstance(fp, HFile):
                c.__dict__["_f"]["pos"] = fp.pos
                c.__dict__["_f"]["data"] = fp.seq
            for fld, nm in (("internObjects", "nrefs"), ("internStrings", "nstrs")):
                t = v.__dict__["_f"].get(fld)
                if isinstance(t, HRefTable):
                    c.__dict__["_f"][nm] = t.length
            return c
        if isinstance(v, HSetList):
            return SObj(set=v.sset)
        if isinstance(v, HSymList):
            return v.as_seq()
        if isinstance(v, HSink):
            return SObj(out=v.out)
        return v

    def covers_path(self):
        self.drain()
        s = z3.Solver()
        s.set("timeout", 1500)
        s.add(*self.run.pc)
        if s.check() == z3.sat:
            self.covers += 1

    def check_raise(self, contract, pr, args):
        ln = getattr(pr.node, "lineno", 0) or 0
        for et, cond in contract.raises.items():
            if exc_matches(pr.exc_type, et):
                if cond is True:
                    self.covers_path()
                    return
                avail = dict(args)
                avail.update(self.entry_snap)
                self.prove(call_by_names(cond, avail), "raises-%s-justified" % et.__name__, ln)
                self.covers_path()
                return
        self.prove(False, "no-%s" % getattr(pr.exc_type, "__name__", "exception"), ln,
                   detail="exception %s (%s) may escape" % (getattr(pr.exc_type, "__name__", pr.exc_type), pr.value))
        raise PathEnd("exceptional exit")

    # ======================================================================== statements
    def exec_block(self, stmts, f):
        for s in stmts:
            self.exec_stmt(s, f)

    def exec_stmt(self, s, f):
        m = getattr(self, "st_" + type(s).__name__, None)
        if m is None:
            raise Unsupported("statement %s (line %d)" % (type(s).__name__, s.lineno))
        return m(s, f)

    def st_Expr(self, s, f):
        if isinstance(s.value, ast.Constant):
            return
        self.eval(s.value, f)

    def st_Pass(self, s, f):
        pass

    def st_Import(self, s, f):
        for a in s.names:
            f.vars[a.asname or a.name.split(".")[0]] = __import__(a.name)

    def st_ImportFrom(self, s, f):
        mod = __import__(s.module, fromlist=[a.name for a in s.names])
        for a in s.names:
            f.vars[a.asname or a.name] = getattr(mod, a.name)

    def st_Assign(self, s, f):
        v = self.eval(s.value, f)
        accs = getattr(getattr(f, "contract", None), "accumulators", None)
        if accs and len(s.targets) == 1 and isinstance(s.targets[0], ast.Name) and s.targets[0].id in accs and isinstance(v, (bytes, str, bytearray)) and len(v) == 0:
            spec = accs[s.targets[0].id]
            env = self.inv_env(f, {})
            v = HAcc(s.targets[0].id, call_by_names(spec.first, env), spec.signed(self.entry_cfg) if callable(spec.signed) else spec.signed, spec)
        for t in s.targets:
            self.assign(t, v, f)

    def st_AnnAssign(self, s, f):
        if s.value is not None:
            self.assign(s.target, self.eval(s.value, f), f)

    def st_AugAssign(self, s, f):
        cur = self.eval(_load(s.target), f)
        v = self.eval(s.value, f)
        if isinstance(s.op, ast.Add) and isinstance(cur, (HList, HSymList)):
            # list += iterable mutates in place
            self.list_extend(cur, v, s)
            return
        if isinstance(s.op, ast.Add) and isinstance(cur, HAcc):
            c = SChars.of(v)
            if c is not None:
                codes = c.codes
            elif isinstance(v, SSeq) and isinstance(v.length, int):
                codes = [self.as_int(v.get(z3.IntVal(i)), s) for i in range(v.length)]
            else:
                raise Unsupported("appending %s to a tracked byte string" % type(v).__name__)
            cur.put(self, codes, lambda: self.inv_env(f, {}), s.lineno)
            return
        self.assign(s.target, self.binop(s.op, cur, v, s), f)

    def list_extend(self, lst, v, node):
        if isinstance(lst, HHandleList):
            lst.hseq = z3.Concat(lst.hseq, STupleSeq.of(v).seq.e)
            return
        seq = self.to_seq(v)
        if seq is None or not isinstance(seq.length, int):
            raise Unsupported("extending a list by a sequence of symbolic length")
        for i in range(seq.length):
            self.list_append(lst, seq.get(z3.IntVal(i)))

    def list_append(self, lst, x):
        if isinstance(lst, HRefTable):
            lst.tail.append([z3.simplify(lst.n0 + len(lst.tail) + lst.extra), x])
            return
        if isinstance(lst, HHandleList):
            lst.hseq = z3.Concat(lst.hseq, z3.Unit(_ie(engine_handle(x))))
        elif isinstance(lst, HList):
            lst.items.append(x)
        elif isinstance(lst, HSymList):
            lst.append(x)
        elif isinstance(lst, HSetList):
            lst.sset = lst.sset.add(self.as_int(x))
        else:
            raise Unsupported("append on %r" % type(lst).__name__)

    def assign(self, t, v, f):
        if isinstance(t, ast.Name):
            f.vars[t.id] = v
        elif isinstance(t, (ast.Tuple, ast.List)):
            star = [i for i, e in enumerate(t.elts) if isinstance(e, ast.Starred)]
            if star == [len(t.elts) - 1] and isinstance(v, (HSymList, SSeq)) and not isinstance(self.to_seq(v).length, int):
                # a, b, *rest = <sequence of symbolic length>
                seq = self.to_seq(v)
                k = len(t.elts) - 1
                if not self.decide(seq.len_e() >= k):
                    raise PyRaise(ValueError, "not enough values to unpack", t)
                for j in range(k):
                    self.assign(t.elts[j], seq.get(z3.IntVal(j)), f)
                rest = SSeq(z3.simplify(seq.len_e() - k), lambda i, seq=seq, k=k: seq.get(z3.simplify(_ie(i) + k)), kind="list")
                self.assign(t.elts[k].value, rest, f)
                return
            items = self.unpack_iter(v, len(t.elts) if not star else None, t)
            if star:
                k = star[0]
                nafter = len(t.elts) - k - 1
                if len(items) < len(t.elts) - 1:
                    raise PyRaise(ValueError, "not enough values to unpack", t)
                for e, x in zip(t.elts[:k], items[:k]):
                    self.assign(e, x, f)
                self.assign(t.elts[k].value, HList(items[k:len(items) - nafter]), f)
                for e, x in zip(t.elts[k + 1:], items[len(items) - nafter:]):
                    self.assign(e, x, f)
            else:
                for e, x in zip(t.elts, items):
                    self.assign(e, x, f)
        elif isinstance(t, ast.Subscript):
            base = self.eval(t.value, f)
            idx = self.eval(t.slice, f)
            self.setitem(base, idx, v, t)
        elif isinstance(t, ast.Attribute):
            base = self.eval(t.value, f)
            if isinstance(base, SObj):
                setattr(base, t.attr, v)
            else:
                raise Unsupported("attribute assignment on %r" % type(base).__name__)
        else:
            raise Unsupported("assignment target %s" % type(t).__name__)

    def setitem(self, base, idx, v, node):
        if isinstance(base, HRefTable):
            k = base.slot_of(idx)
            if k is not None:
                base.tail[k][1] = v
                return
            raise Unsupported("store into the reference table at an index that is not one of the slots appended in this call")
        if isinstance(base, HList):
            if is_sym(idx):
                raise Unsupported("store at symbolic index of a concrete-length list")
            try:
                base.items[idx] = v
            except IndexError:
                raise PyRaise(IndexError, "list assignment index out of range", node)
            return
        if isinstance(base, HPairDict):
            base.hseq = z3.Concat(base.hseq, z3.Unit(_ie(engine_handle(idx))), z3.Unit(_ie(engine_handle(v))))
            return
        if isinstance(base, dict) and getattr(base, "_pyvc_local", False):
            if is_sym(idx) or isinstance(idx, Opaque):
                if not hasattr(base, "_symitems"):
                    base._symitems = []
                base._symitems.append((idx, v))      # write-only side table entry under an unmodelled key
                return
            base[idx] = v
            return
        raise Unsupported("item assignment on %r" % type(base).__name__)

    def unpack_iter(self, v, n, node):
        """iterate a value fully into a python list of values (concrete length required)"""
        if isinstance(v, tuple):
            items = list(v)
        elif isinstance(v, HList):
            items = list(v.items)
        elif isinstance(v, (list,)):
            items = list(v)
        else:
            seq = self.to_seq(v)
            if seq is None:
                if isinstance(v, HIter):
                    raise Unsupported("unpacking from a shared iterator")
                if is_sym(v) or isinstance(v, Opaque):
                    raise Unsupported("unpacking a symbolic non-sequence")
                try:
                    items = list(v)
                except TypeError:
                    raise PyRaise(TypeError, "cannot unpack non-iterable", node)
            else:
                if not isinstance(seq.length, int):
                    if n is None:
                        raise Unsupported("unpacking a sequence of symbolic length")
                    # fork on length == n
                    if self.decide(seq.len_e() == n):
                        items = [seq.get(z3.IntVal(i)) for i in range(n)]
                        if seq.kind == "bytes":
                            for it in items:
                                self.run.pc.append(sym.byte_fact(it.e))
                    else:
                        raise PyRaise(ValueError, "wrong number of values to unpack", node)
                else:
                    items = [seq.get(z3.IntVal(i)) for i in range(seq.length)]
        if n is not None and len(items) != n:
            raise PyRaise(ValueError, "wrong number of values to unpack", node)
        return items

    def st_Return(self, s, f):
        raise ReturnEx(self.eval(s.value, f) if s.value is not None else None)

    def st_Break(self, s, f):
        raise BreakEx()

    def st_Continue(self, s, f):
        raise ContinueEx()

    def st_Delete(self, s, f):
        for t in s.targets:
            if isinstance(t, ast.Name):
                f.vars.pop(t.id, None)
            else:
                raise Unsupported("del of non-name")

    def st_Global(self, s, f):
        raise Unsupported("global statement")

    def st_Nonlocal(self, s, f):
        raise Unsupported("nonlocal statement")

    def st_FunctionDef(self, s, f):
        defaults = [self.eval(d, f) for d in s.args.defaults]
        kwdefaults = dict((a.arg, self.eval(d, f)) for a, d in zip(s.args.kwonlyargs, s.args.kw_defaults) if d is not None)
        f.vars[s.name] = Closure(s, f, s.name, defaults, kwdefaults)

    def st_If(self, s, f):
        c = self.eval(s.test, f)
        if self.test(c):
            self.exec_block(s.body, f)
        else:
            self.exec_block(s.orelse, f)

    def st_Assert(self, s, f):
        c = self.eval(s.test, f)
        if not self.test(c):
            raise PyRaise(AssertionError, None, s)

    def st_Raise(self, s, f):
        if s.exc is None:
            cur = getattr(f, "cur_exc", None)
            if cur is None:
                raise Unsupported("bare raise outside handler")
            raise cur
        e = self.eval_raise_operand(s.exc, f)
        raise PyRaise(e, None, s)

    def eval_raise_operand(self, node, f):
        # `raise X(...)`: only the class matters
        if isinstance(node, ast.Call):
            cls = self.eval(node.func, f)
            for a in node.args:
                try:
                    self.eval(a, f)
                except Unsupported:
                    pass
            if isinstance(cls, type) and issubclass(cls, BaseException):
                return cls
            raise Unsupported("raise of non-exception call")
        v = self.eval(node, f)
        if isinstance(v, type) and issubclass(v, BaseException):
            return v
        if isinstance(v, BaseException):
            return type(v)
        raise Unsupported("raise operand")

    def st_Try(self, s, f):
        try:
            try:
                self.exec_block(s.body, f)
            except PyRaise as pr:
                for h in s.handlers:
                    ht = self.eval(h.type, f) if h.type is not None else BaseException
                    hit = exc_matches(pr.exc_type, ht)
                    if hit is None:
                        # an exception of unknown class against a handler narrower than Exception: both outcomes are explored
                        hit = self.decide(self.fresh_bool("caught_by_line_%d" % h.lineno).e)
                    if hit:
                        if h.name:
                            f.vars[h.name] = Opaque("exception")
                        old = getattr(f, "cur_exc", None)
                        f.cur_exc = pr
                        try:
                            self.exec_block(h.body, f)
                        finally:
                            f.cur_exc = old
                        break
                else:
                    raise
            else:
                self.exec_block(s.orelse, f)
        except (PathEnd, Unsupported):
            raise
        except (PyRaise, ReturnEx, BreakEx, ContinueEx):
            if s.finalbody:
                self.exec_block(s.finalbody, f)
            raise
        else:
            if s.finalbody:
                self.exec_block(s.finalbody, f)

    def st_With(self, s, f):
        raise Unsupported("with statement")

    # ------------------------------------------------------------------------ loops
    def loop_spec(self, node, f):
        """(ordinal, Loop or None) for a loop of the function under verification or an inlined one"""
        c = getattr(f, "contract", None)
        loops = getattr(f, "loops", None)
        if loops is None:
            return None, None
        try:
            k = loops.index(node)
        except ValueError:
            return None, None
        if c is None:
            return k, None
        prefix = getattr(f, "loop_prefix", None)
        sp = c.loops.get((prefix, k) if prefix else k)
        if prefix:
            k = "%s.%d" % (prefix, k)
        if sp is not None and sp.fingerprint is not None:
            fp = extract.loop_fingerprint(node)
            if fp != extract.normalize_fingerprint(sp.fingerprint):
                raise Unsupported("loop %s fingerprint changed (%r vs contract %r): contract needs maintenance" % (k, fp, sp.fingerprint))
        return k, sp

    def inv_env(self, f, extra):
        env = {}
        fr = f
        chain = []
        while fr is not None:
            chain.append(fr)
            fr = fr.parent
        for fr in reversed(chain):
            env.update(fr.vars)
        if f is self.root or getattr(f, "contract", None) is self.current:
            env.update(self.entry_snap)
        env["_ny"] = getattr(self.root, "ny", 0)
        env["_ys"] = getattr(self.root, "ys", None)
        env.update(extra)
        return env

    def havoc_value(self, name, cur, spec):
        if name in spec.havoc:
            v, hs = spec.havoc[name](self, name)
            for h in hs:
                self.run.pc.append(h)
            return v
        return self.havoc_like(name, cur)

    def havoc_like(self, name, cur):
        if isinstance(cur, bool) or isinstance(cur, SBool):
            return self.fresh_bool(name)
        if isinstance(cur, (int, SInt)):
            return self.fresh_int(name)
        if cur is None or isinstance(cur, SOpt):
            return self.fresh_opt(name)
        if isinstance(cur, tuple):
            return tuple(self.havoc_like("%s_%d" % (name, i), x) for i, x in enumerate(cur))
        if isinstance(cur, (str, Opaque)):
            return Opaque(name)
        if isinstance(cur, SEnum):
            c = cur.collapse()
            if isinstance(c, SInt):
                return self.fresh_int(name)
            if isinstance(c, SBool):
                return self.fresh_bool(name)
            idx = z3.Int(self.fresh(name + "!idx"))
            self.run.pc.append(z3.And(idx >= 0, idx < len(cur.table)))
            return SEnum(idx, cur.table)
        if isinstance(cur, SUnion):
            return cur
        if isinstance(cur, PyLong):
            return PyLong(self.fresh_int(name))
        if isinstance(cur, STupleSeq) or (isinstance(cur, tuple) and len(cur) == 0 and name in ("ret",)):
            return STupleSeq(sym.ZSeq(z3.Const(self.fresh(name + "!seq"), z3.SeqSort(z3.IntSort()))))
        if isinstance(cur, (HSetList, HSymList, HIter, HList, HMap, SObj, HAcc, HPairDict)):
            return cur      # heap objects are havocked in place (see havoc_heap)
        raise Unsupported("cannot havoc loop variable %r of kind %s; declare it in the loop contract" % (name, type(cur).__name__))

    def havoc_heap(self, obj, name, mutated):
        if isinstance(obj, HSetList):
            obj.sset = SSet(z3.Array(self.fresh(name + "!set"), z3.IntSort(), z3.BoolSort()))
        elif isinstance(obj, HSymList):
            obj.seqs = [z3.Const(self.fresh(name + "!s%d" % i), z3.SeqSort(z3.IntSort())) for i in range(len(obj.kinds))]
            for sq in obj.seqs[1:]:
                self.run.pc.append(z3.Length(sq) == z3.Length(obj.seqs[0]))
        elif isinstance(obj, HIter):
            p = z3.Int(self.fresh(name + "!pos"))
            self.run.pc.append(z3.And(p >= 0, p <= obj.seq.len_e()))
            obj._pos = SInt(p)
        elif isinstance(obj, HFile):
            p = z3.Int(self.fresh(name + "!pos"))
            self.run.pc.append(z3.And(p >= 0, p <= obj.seq.len_e()))
            obj._pos = SInt(p)
        elif isinstance(obj, HSink):
            obj.seq = z3.Const(self.fresh(name + "!out"), z3.SeqSort(z3.IntSort()))
        elif isinstance(obj, HAcc):
            if obj.half is not None:
                raise Unsupported("a loop is cut between the two bytes of a pair appended to %s" % obj.name)
            obj.addr = z3.Int(self.fresh(name + "!addr"))
            obj.line = z3.Int(self.fresh(name + "!line"))
            obj.last = z3.Int(self.fresh(name + "!last"))
            obj.has_last = z3.Bool(self.fresh(name + "!has_last"))
            obj.nyield = z3.Int(self.fresh(name + "!nyield"))
            obj.npairs = z3.Int(self.fresh(name + "!npairs"))
            self.run.pc.append(z3.And(obj.nyield >= 0, obj.npairs >= 0))
        elif isinstance(obj, HRefTable):
            g = z3.Int(self.fresh(name + "!extra"))
            self.run.pc.append(g >= _ie(obj.extra))
            obj.extra = g
        elif isinstance(obj, SObj):
            for k2, v2 in list(obj.__dict__["_f"].items()):
                if isinstance(v2, (HFile, HRefTable, HIter, HSymList, HSetList, HSink)):
                    self.havoc_heap(v2, "%s.%s" % (name, k2), mutated)
        elif isinstance(obj, HPairDict):
            if mutated:
                obj.hseq = z3.Const(self.fresh(name + "!pairs"), z3.SeqSort(z3.IntSort()))
        elif isinstance(obj, HHandleList):
            if mutated:
                obj.hseq = z3.Const(self.fresh(name + "!hseq"), z3.SeqSort(z3.IntSort()))
        elif isinstance(obj, HList):
            if mutated:
                if all(isinstance(x, (int, SInt)) and not isinstance(x, bool) for x in obj.items):
                    # a list of abstract object handles mutated by the loop: from here on a list of symbolic length
                    # (in place: aliases, e.g. the reference-table slot that already holds it, see the same object)
                    del obj.__dict__["items"]
                    obj.__class__ = HHandleList
                    obj.hseq = z3.Const(self.fresh(name + "!hseq"), z3.SeqSort(z3.IntSort()))
                    return
                raise Unsupported("a list of concrete length (%s) is mutated inside a cut loop; model it as a symbolic list" % name)

    def cut_prepare(self, node, f, spec, extra_names=()):
        """havoc everything the loop body may change; returns nothing"""
        body = node.body + node.orelse
        assigned = extract.assigned_names(body) | set(extra_names)
        if isinstance(node, ast.While):
            assigned |= extract.assigned_names([ast.Expr(node.test)])
        used = extract.names_used(body + ([node.test] if isinstance(node, ast.While) else [node.iter]))
        mutated_names = _maybe_mutated_names(body + ([ast.Expr(node.test)] if isinstance(node, ast.While) else []))
        # nested functions called in the loop mutate what their own bodies mutate (captured variables of this frame)
        for c in [x for b in body for x in ast.walk(b)]:
            if isinstance(c, ast.Call) and isinstance(c.func, ast.Name):
                try:
                    callee = f.lookup(c.func.id)
                except PyRaise:
                    continue
                if isinstance(callee, Closure):
                    inner = _maybe_mutated_names(callee.node.body)
                    mutated_names |= inner
                    used |= inner
        for nm in sorted(assigned):
            if nm in f.vars:
                f.vars[nm] = self.havoc_value(nm, f.vars[nm], spec)
        seen = set()
        for nm in sorted(spec.havoc):
            if nm not in assigned and nm in f.vars:
                f.vars[nm] = self.havoc_value(nm, f.vars[nm], spec)
                seen.add(id(f.vars[nm]))
        for nm in sorted(used):
            try:
                obj = f.lookup(nm)
            except PyRaise:
                continue
            if isinstance(obj, (HPairDict, HSetList, HSymList, HIter, HList, HFile, HRefTable, SObj, HSink, HAcc)) and id(obj) not in seen:
                seen.add(id(obj))
                if nm in mutated_names:
                    self.havoc_heap(obj, nm, True)
        if getattr(self.root, "is_gen", False) and any(isinstance(n, (ast.Yield, ast.YieldFrom)) for b in body for n in ast.walk(b)):
            ny = z3.Int(self.fresh("_ny"))
            self.run.pc.append(ny >= 0)
            self.root.ny = SInt(ny)
            if getattr(self.root, "ys", None) is not None:
                self.root.ys = tuple(sym.ZSeq(z3.Const(self.fresh("_ys%d" % j), z3.SeqSort(z3.IntSort()))) for j in range(len(self.root.ys)))

    def st_While(self, s, f):
        k, spec = self.loop_spec(s, f)
        if spec is None or spec.invariant is None:
            return self.unrolled_while(s, f, spec)
        ln = s.lineno
        self.prove(call_by_names(spec.invariant, self.inv_env(f, {})), "loop%s-entry" % k, ln)
        self.cut_prepare(s, f, spec)
        for _, e in conjuncts(call_by_names(spec.invariant, self.inv_env(f, {}))):
            self.run.pc.append(e)
        m0 = None
        if spec.decreases is not None:
            m0 = call_by_names(spec.decreases, self.inv_env(f, {}))
        c = self.eval(s.test, f)
        if self.test(c):
            if m0 is not None:
                self.prove(_ie(m0) >= 0, "loop%s-variant-bounded" % k, ln)
            try:
                self.exec_block(s.body, f)
            except ContinueEx:
                pass
            except BreakEx:
                return
            self.prove(call_by_names(spec.invariant, self.inv_env(f, {})), "loop%s-preserve" % k, ln)
            if m0 is not None:
                m1 = call_by_names(spec.decreases, self.inv_env(f, {}))
                self.prove(_ie(m1) < _ie(m0), "loop%s-decreases" % k, ln)
            raise PathEnd("loop body closed")
        else:
            self.exec_block(s.orelse, f)

    def unrolled_while(self, s, f, spec):
        n = 0
        bound = (spec.unroll if spec is not None and spec.unroll else self.max_unroll)
        while True:
            c = self.eval(s.test, f)
            t = self.truthy(c)
            if not isinstance(t, bool):
                t = z3.simplify(t)
                if z3.is_true(t):
                    t = True
                elif z3.is_false(t):
                    t = False
                elif spec is not None and spec.unroll:
                    t = self.decide(t)
                else:
                    raise Unsupported("while loop at line %d needs an invariant (symbolic condition)" % s.lineno)
            if not t:
                self.exec_block(s.orelse, f)
                return
            n += 1
            if n > bound:
                if spec is not None and spec.unroll:
                    raise PathEnd("unroll bound reached")
                raise Unsupported("while loop at line %d exceeds the unrolling bound" % s.lineno)
            try:
                self.exec_block(s.body, f)
            except ContinueEx:
                continue
            except BreakEx:
                return

    def st_For(self, s, f):
        it = self.eval(s.iter, f)
        k, spec = self.loop_spec(s, f)
        shared = None
        wrap = None
        if isinstance(it, HEnum):
            en = it
            it = en.base
            def wrap(v, pos_before, en=en):
                c = z3.simplify(_ie(pos_before) - _ie(en.p0) + _ie(en.start))
                return (c.as_long() if z3.is_int_value(c) else SInt(c), v)
        if isinstance(it, HIter):
            shared = it
            seq = it.seq
        else:
            seq = self.to_seq(it)
            if seq is None:
                if isinstance(it, HMap) or is_sym(it) or isinstance(it, (Opaque, HSetList)):
                    raise Unsupported("for loop over %s (line %d)" % (type(it).__name__, s.lineno))
                try:
                    seq = self.to_seq(list(it))
                except TypeError:
                    raise PyRaise(TypeError, "object is not iterable", s)
        if shared is None and isinstance(seq.length, int) and (spec is None or spec.invariant is None):
            if seq.length > self.max_unroll:
                raise Unsupported("for loop at line %d: %d iterations exceed the unrolling bound" % (s.lineno, seq.length))
            for i in range(seq.length):
                v = seq.get(z3.IntVal(i))
                self.assign(s.target, v, f)
                try:
                    self.exec_block(s.body, f)
                except ContinueEx:
                    continue
                except BreakEx:
                    return
            self.exec_block(s.orelse, f)
            return
        if shared is not None and spec is not None and spec.unroll and spec.invariant is None:
            # bounded unrolling of a loop over a shared cursor (the bound is part of the contract's domain)
            for _n in range(spec.unroll + 1):
                p = shared._pos
                more = (p < seq.length) if (isinstance(p, int) and isinstance(seq.length, int)) else self.decide(_ie(p) < _ie(seq.length))
                if not more:
                    self.exec_block(s.orelse, f)
                    return
                if _n == spec.unroll:
                    raise PathEnd("unroll bound reached")
                v = seq.get(_ie(p) if is_sym(p) else z3.IntVal(p))
                if seq.kind == "bytes" and isinstance(v, SInt):
                    sym.note_fact(sym.byte_fact(v.e))
                shared._pos = (p + 1) if isinstance(p, int) else SInt(z3.simplify(_ie(p) + 1))
                if wrap is not None:
                    v = wrap(v, p)
                self.assign(s.target, v, f)
                try:
                    self.exec_block(s.body, f)
                except ContinueEx:
                    continue
                except BreakEx:
                    return
            return
        if shared is not None and isinstance(seq.length, int) and isinstance(shared._pos, int) and (spec is None or spec.invariant is None):
            while shared._pos < seq.length:
                v = seq.get(z3.IntVal(shared._pos))
                if wrap is not None:
                    v = wrap(v, shared._pos)
                shared._pos += 1
                self.assign(s.target, v, f)
                try:
                    self.exec_block(s.body, f)
                except ContinueEx:
                    continue
                except BreakEx:
                    return
            self.exec_block(s.orelse, f)
            return
        if spec is None or spec.invariant is None:
            raise Unsupported("for loop at line %d over a sequence of symbolic length needs an invariant" % s.lineno)
        ln = s.lineno
        gk = shared.pos if shared is not None else 0
        for nm in sorted(spec.havoc):
            if nm not in f.vars:
                # a loop variable that is unbound before the loop: give it an arbitrary value so that the
                # invariant (which must not depend on it for _k == 0) can be evaluated
                f.vars[nm] = self.havoc_value(nm, None, spec)
        self.prove(call_by_names(spec.invariant, self.inv_env(f, {"_k": gk})), "loop%s-entry" % k, ln)
        self.cut_prepare(s, f, spec, extract.assigned_names([ast.Assign(targets=[s.target], value=ast.Constant(0))]))
        if shared is not None:
            self.havoc_heap(shared, "it", True)
            kk = shared.pos
        else:
            kz = z3.Int(self.fresh("_k"))
            self.run.pc.append(z3.And(kz >= 0, kz <= seq.len_e()))
            kk = SInt(kz)
        # loop targets are undefined/havocked at the head; the invariant must not depend on them
        for _, e in conjuncts(call_by_names(spec.invariant, self.inv_env(f, {"_k": kk}))):
            self.run.pc.append(e)
        f.vars["_k%s" % k] = kk
        if self.decide(kk.e < seq.len_e()):
            v = seq.get(kk.e)
            if seq.kind == "bytes" and isinstance(v, SInt):
                self.run.pc.append(sym.byte_fact(v.e))
            if shared is not None:
                shared._pos = SInt(kk.e + 1)
            self.assign(s.target, v, f)
            try:
                self.exec_block(s.body, f)
            except ContinueEx:
                pass
            except BreakEx:
                return
            nk = shared.pos if shared is not None else SInt(kk.e + 1)
            self.prove(call_by_names(spec.invariant, self.inv_env(f, {"_k": nk})), "loop%s-preserve" % k, ln)
            raise PathEnd("loop body closed")
        else:
            self.exec_block(s.orelse, f)

    # ======================================================================== expressions
    def eval(self, e, f):
        m = getattr(self, "ex_" + type(e).__name__, None)
        if m is None:
            raise Unsupported("expression %s (line %d)" % (type(e).__name__, getattr(e, "lineno", 0)))
        return m(e, f)

    def ex_Constant(self, e, f):
        return e.value

    def ex_Name(self, e, f):
        v = f.lookup(e.id)
        if isinstance(v, SUnion):
            chosen = v.alts[-1]
            for i, alt in enumerate(v.alts[:-1]):
                if self.decide(v.tag == i):
                    chosen = alt
                    break
            fr = f
            while fr is not None and e.id not in fr.vars:
                fr = fr.parent
            if fr is not None:
                fr.vars[e.id] = chosen
            return chosen
        return v

    def ex_Tuple(self, e, f):
        out = []
        for x in e.elts:
            if isinstance(x, ast.Starred):
                out += self.unpack_iter(self.eval(x.value, f), None, x)
            else:
                out.append(self.eval(x, f))
        return tuple(out)

    def ex_List(self, e, f):
        return HList(self.ex_Tuple(e, f))

    def ex_Set(self, e, f):
        vals = self.ex_Tuple(e, f)
        if any(is_sym(v) for v in vals):
            raise Unsupported("set display with symbolic elements")
        return set(vals)

    def ex_Dict(self, e, f):
        d = _LocalDict()
        for k, v in zip(e.keys, e.values):
            if k is None:
                raise Unsupported("dict unpacking")
            kk = self.eval(k, f)
            if is_sym(kk):
                raise Unsupported("dict display with symbolic key")
            d[kk] = self.eval(v, f)
        return d

    def ex_JoinedStr(self, e, f):
        parts = []
        for v in e.values:
            if isinstance(v, ast.Constant):
                parts.append(v.value)
            else:
                x = self.eval(v.value, f)
                if is_sym(x) or isinstance(x, (Opaque, HList, HSymList, HSetList, SObj)):
                    return Opaque("fstring")
                try:
                    conv = {-1: lambda a: a, 115: str, 114: repr, 97: ascii}[v.conversion]
                    spec = self.eval(v.format_spec, f) if v.format_spec is not None else ""
                    if isinstance(spec, Opaque):
                        return Opaque("fstring")
                    parts.append(format(conv(x), spec))
                except Exception:
                    return Opaque("fstring")
        return "".join(parts)

    def ex_FormattedValue(self, e, f):
        return self.ex_JoinedStr(ast.JoinedStr(values=[e]), f)

    def ex_Lambda(self, e, f):
        fn = ast.FunctionDef(name="<lambda>", args=e.args, body=[ast.Return(value=e.body, lineno=e.lineno, col_offset=0)],
                             decorator_list=[], lineno=e.lineno, col_offset=0, end_lineno=e.lineno)
        defaults = [self.eval(d, f) for d in e.args.defaults]
        return Closure(fn, f, "<lambda>", defaults, {})

    def ex_NamedExpr(self, e, f):
        v = self.eval(e.value, f)
        self.assign(e.target, v, f)
        return v

    def ex_IfExp(self, e, f):
        c = self.eval(e.test, f)
        return self.eval(e.body if self.test(c) else e.orelse, f)

    def ex_BoolOp(self, e, f):
        v = None
        for i, x in enumerate(e.values):
            v = self.eval(x, f)
            if i == len(e.values) - 1:
                return v
            t = self.test(v)
            if isinstance(e.op, ast.And) and not t:
                return v
            if isinstance(e.op, ast.Or) and t:
                return v
        return v

    def ex_UnaryOp(self, e, f):
        v = self.eval(e.operand, f)
        if isinstance(e.op, ast.Not):
            t = self.truthy(v)
            return (not t) if isinstance(t, bool) else SBool(z3.Not(t))
        if isinstance(v, Opaque):
            return v
        if not is_sym(v):
            return {ast.USub: _neg, ast.UAdd: _pos, ast.Invert: _inv}[type(e.op)](v)
        x = self.as_int(v, e)
        if isinstance(e.op, ast.USub):
            return SInt(-_ie(x))
        if isinstance(e.op, ast.UAdd):
            return x
        if isinstance(e.op, ast.Invert):
            return SInt(-_ie(x) - 1)
        raise Unsupported("unary operator")

    def ex_BinOp(self, e, f):
        a = self.eval(e.left, f)
        b = self.eval(e.right, f)
        return self.binop(e.op, a, b, e)

    def ex_Compare(self, e, f):
        left = self.eval(e.left, f)
        result = True
        for i, (op, rn) in enumerate(zip(e.ops, e.comparators)):
            right = self.eval(rn, f)
            r = self.compare(op, left, right, e)
            if i == len(e.ops) - 1 and result is True:
                return r
            if not self.test(r):
                return False
            left = right
        return True

    def ex_Attribute(self, e, f):
        base = self.eval(e.value, f)
        return self.getattr(base, e.attr, e)

    def getattr(self, base, name, node=None):
        if isinstance(base, SObj):
            try:
                return getattr(base, name)
            except AttributeError:
                cls = base.__dict__["_f"].get("__class__")
                if cls is not None:
                    return self.class_attr(base, cls, cls.__mro__, name, node)
                raise PyRaise(AttributeError, name, node)
        if isinstance(base, SuperProxy):
            cls = base.obj.__dict__["_f"].get("__class__")
            mro = list(cls.__mro__)
            return self.class_attr(base.obj, cls, mro[mro.index(base.after) + 1:], name, node)
        if isinstance(base, (HList, HSymList, HSetList, HIter, HMap, SSeq, SSet, BinStr, HFile, HRefTable, HSink, HAcc)):
            return BoundMethod(base, name)
        if isinstance(base, SEnum):
            return base.map(lambda t: getattr(t, name)).collapse()
        if isinstance(base, Opaque):
            return Opaque(base.tag + "." + name)
        if name == "bit_length" and isinstance(base, (SInt, PyLong)):
            return BoundMethod(base, name)
        if isinstance(base, SVal):
            raise Unsupported("attribute %s of symbolic %s" % (name, type(base).__name__))
        if isinstance(base, _LocalDict):
            return BoundMethod(base, name)
        try:
            return getattr(base, name)
        except AttributeError:
            raise PyRaise(AttributeError, name, node)

    def class_attr(self, obj, cls, mro, name, node):
        for k in mro:
            if name in k.__dict__:
                v = k.__dict__[name]
                if isinstance(v, types.FunctionType):
                    return MethodOf(v, obj)
                if isinstance(v, staticmethod):
                    return v.__func__
                if isinstance(v, classmethod):
                    return MethodOf(v.__func__, cls)
                if isinstance(v, property):
                    return self.call(v.fget, [obj], {}, node, None)
                if k is object:
                    break
                return v
        raise PyRaise(AttributeError, name, node)

    def instantiate(self, cls, args, kwargs, node, f):
        if issubclass(cls, int) and len(args) == 1:
            v = args[0]
            if isinstance(v, PyLong):
                v = v.v
            if cls.__name__ == "LongTypeForPython3":
                return PyLong(v)
        if issubclass(cls, (str, bytes)) and len(args) == 1:
            return Opaque(cls.__name__, cls)
        obj = SObj(__class__=cls)
        init = None
        for k in cls.__mro__:
            if "__init__" in k.__dict__:
                init = k.__dict__["__init__"]
                break
        if isinstance(init, types.FunctionType) and _is_repo(init):
            self.call(init, [obj] + list(args), kwargs, node, f)
        elif args or kwargs:
            raise Unsupported("instantiation of %s with arguments but no modelled __init__" % cls.__name__)
        return obj

    def ex_Slice(self, e, f):
        return slice(self.eval(e.lower, f) if e.lower else None, self.eval(e.upper, f) if e.upper else None,
                     self.eval(e.step, f) if e.step else None)

    def ex_Subscript(self, e, f):
        base = self.eval(e.value, f)
        idx = self.eval(e.slice, f)
        return self.getitem(base, idx, e)

    def getitem(self, base, idx, node=None):
        if isinstance(base, Opaque):
            return Opaque(base.tag + "[]")
        if isinstance(idx, slice):
            return self.getslice(base, idx, node)
        if isinstance(base, HRefTable):
            k = base.slot_of(self.as_int(idx, node))
            if k is not None:
                return base.tail[k][1]
            ie = _ie(idx)
            if self.decide(z3.And(ie >= 0, ie < base.n0)):
                return SInt(z3.Function("REF!" + base.name, z3.IntSort(), z3.IntSort())(ie))     # abstract entry of the prefix
            if self.decide(z3.And(ie >= base.n0, ie < _ie(base.length))):
                raise Unsupported("read of a reference-table entry stored during this call at a symbolic index")
            if self.decide(z3.And(ie < 0, ie >= -_ie(base.length))):
                raise Unsupported("negative index into the reference table")
            raise PyRaise(IndexError, "list index out of range", node)
        if isinstance(base, HMap):
            k = self.as_int(idx, node)
            if self.decide(base.contains(k).e):
                return base.at(k)
            raise PyRaise(KeyError, None, node)
        if isinstance(base, (HSymList, SSeq, HList)) or (isinstance(base, (bytes, bytearray)) and is_sym(idx)):
            if isinstance(base, HList) and not is_sym(idx):
                try:
                    return base.items[idx]
                except IndexError:
                    raise PyRaise(IndexError, "list index out of range", node)
                except TypeError:
                    raise PyRaise(TypeError, "bad index", node)
            seq = self.to_seq(base)
            return self.seq_get(seq, self.as_int(idx, node), node)
        if isinstance(base, SEnum):
            if is_sym(idx):
                raise Unsupported("symbolic index into a symbolic table entry")
            return base.map(lambda t: t[idx]).collapse()
        if isinstance(base, SVal):
            raise Unsupported("subscript of symbolic %s" % type(base).__name__)
        if is_sym(idx):
            if isinstance(idx, SEnum) and not isinstance(idx.collapse(), SInt):
                # symbolic key (e.g. a name) into a concrete mapping
                if hasattr(base, "get") and hasattr(base, "keys"):
                    tbl = [base.get(t, MISSING) if _hashable(t) else MISSING for t in idx.table]
                    if self.decide(SEnum(idx.idx, [x is MISSING for x in tbl]).as_bool().e):
                        raise PyRaise(KeyError, None, node)
                    return SEnum(idx.idx, tbl).collapse()
                raise Unsupported("symbolic non-integer index")
            i = self.as_int(idx, node)
            if isinstance(base, (list, tuple, str, bytes)):
                if isinstance(base, tuple) and any(is_sym(x) for x in base):
                    i = self.index_check(i, len(base), node)
                    try:
                        r = base[-1]
                        for j in range(len(base) - 2, -1, -1):
                            r = merge(_ie(i) == j, base[j], r)
                        return r
                    except Unsupported:
                        return self._sym_tuple_index(base, i)
                i = self.index_check(i, len(base), node)
                tbl = list(base)
                return SEnum(_ie(i), tbl).collapse()
            if isinstance(base, dict) or hasattr(base, "keys"):
                keys = sorted(k for k in base.keys() if isinstance(k, int))
                if not keys:
                    raise PyRaise(KeyError, None, node)
                hit = z3.Or(*[_ie(i) == k for k in keys])
                if not self.decide(hit):
                    raise PyRaise(KeyError, None, node)
                lo = min(keys)
                tbl = [base.get(lo + j, MISSING) for j in range(max(keys) - lo + 1)]
                return SEnum(_ie(i) - lo, tbl).collapse()
            raise Unsupported("symbolic index into %r" % type(base).__name__)
        try:
            return base[idx]
        except IndexError:
            raise PyRaise(IndexError, "index out of range", node)
        except KeyError:
            raise PyRaise(KeyError, None, node)
        except TypeError as ex:
            raise PyRaise(TypeError, str(ex), node)

    def _sym_tuple_index(self, base, i):
        ie = _ie(i)
        for j, x in enumerate(base[:-1]):
            if self.decide(ie == j):
                return x
        return base[-1]

    def getslice(self, base, sl, node):
        if sl.step is not None and (not isinstance(sl.step, int) or sl.step <= 0):
            raise Unsupported("slice with symbolic or non-positive step")
        step = sl.step or 1
        if not is_sym(base) and not isinstance(base, (HList, HSymList)) and not is_sym(sl.start) and not is_sym(sl.stop):
            try:
                return base[sl]
            except TypeError as ex:
                raise PyRaise(TypeError, str(ex), node)
        seq = self.to_seq(base)
        if seq is None:
            raise Unsupported("slice of %r" % type(base).__name__)
        n = seq.length
        def clamp(v, default):
            if v is None:
                return default
            if isinstance(v, int) and isinstance(n, int):
                if v < 0:
                    v = max(0, v + n)
                return min(v, n)
            ve, ne = _ie(v), _ie(n)
            if isinstance(v, int) and v >= 0:
                return SInt(z3.If(ve <= ne, ve, ne))
            return SInt(z3.If(ve < 0, z3.If(ve + ne < 0, 0, ve + ne), z3.If(ve <= ne, ve, ne)))
        if (sl.start is None or (isinstance(sl.start, int) and sl.start >= 0)) and sl.stop is None and not isinstance(n, int):
            # x[a::s] with constant a >= 0: length = max(0, ceil((n - a) / s)); elements x[a + s*i] (only read when i < length)
            a0 = sl.start or 0
            ne = _ie(n)
            if step == 1:
                ln = z3.If(ne > a0, ne - a0, z3.IntVal(0)) if a0 else ne
            else:
                ln = z3.If(ne > a0, (ne - a0 + (step - 1)) / step, z3.IntVal(0)) if a0 >= step or a0 == 0 and False else (ne - a0 + (step - 1)) / step
                # for 0 <= a0 < step and n >= 0: (n - a0 + step - 1) div step >= 0 already, and equals the count
            return SSeq(z3.simplify(ln), lambda i, seq=seq, a0=a0, step=step: seq.get(z3.simplify(a0 + _ie(i) * step)), kind=seq.kind)
        start = clamp(sl.start, 0)
        stop = clamp(sl.stop, n)
        if isinstance(start, int) and isinstance(stop, int):
            ln = max(0, (stop - start + step - 1) // step)
        else:
            se, ee = _ie(start), _ie(stop)
            ln = z3.simplify(z3.If(ee > se, (ee - se + (step - 1)) / step, z3.IntVal(0)))
            if z3.is_int_value(ln):
                ln = ln.as_long()
        se = _ie(start)
        kind = seq.kind
        if isinstance(base, HList) and isinstance(ln, int):
            return HList([seq.get(z3.simplify(se + j * step)) for j in range(ln)])
        return SSeq(ln, lambda i, seq=seq, se=se, step=step: seq.get(z3.simplify(se + _ie(i) * step)), kind=kind)

    def ex_ListComp(self, e, f):
        return HList(self.comprehension(e.elt, e.generators, f))

    def ex_GeneratorExp(self, e, f):
        return HList(self.comprehension(e.elt, e.generators, f))

    def ex_SetComp(self, e, f):
        vals = self.comprehension(e.elt, e.generators, f)
        if any(is_sym(v) for v in vals):
            raise Unsupported("set comprehension with symbolic elements")
        return set(vals)

    def comprehension(self, elt, gens, f):
        out = []
        inner = Frame(f.globs, f, f.fname, f.modname)

        def rec(gi):
            if gi == len(gens):
                out.append(self.eval(elt, inner))
                return
            g = gens[gi]
            itv = self.eval(g.iter, inner)
            items = self.unpack_iter(itv, None, g.iter)
            for x in items:
                self.assign(g.target, x, inner)
                if all(self.test(self.eval(c, inner)) for c in g.ifs):
                    rec(gi + 1)
        rec(0)
        return out

    def ex_Yield(self, e, f):
        v = self.eval(e.value, f) if e.value is not None else None
        fr = f
        while fr is not None and not getattr(fr, "is_gen_frame", False) and fr is not self.root:
            fr = fr.parent
        target = fr if fr is not None else self.root
        if getattr(target, "collect", None) is not None:
            target.collect.append(v)
            return None
        # generator under verification
        c = self.current
        ny = self.root.ny
        avail = dict(self.entry_args)
        avail.update(self.entry_snap)
        avail["_k"] = ny if isinstance(ny, SInt) else SInt(ny)
        avail["value"] = v
        ln = e.lineno
        for kname, kv in self.inv_env(f, {}).items():
            if kname.startswith("_k") or kname not in avail:
                avail.setdefault(kname, kv)
        if c.yield_seq:
            enc = call_by_names(c.yield_encode, {"value": v}) if c.yield_encode is not None else (v if isinstance(v, tuple) else (v,))
            if len(enc) != c.yield_seq:
                raise Unsupported("yield encoding arity")
            self.root.ys = tuple(sym.ZSeq(z3.Concat(ysj.e, z3.Unit(_ie(self.as_int(x))))) for ysj, x in zip(self.root.ys, enc))
        if c.yield_at is not None:
            want = call_by_names(c.yield_at, avail)
            self.prove(self.equal(v, want), "yield-value", ln)
        if c.yield_post is not None:
            self.prove(call_by_names(c.yield_post, avail), "yield", ln)
        if c.yield_count is not None:
            cnt = call_by_names(c.yield_count, avail)
            self.prove(_ie(ny) < _ie(cnt), "yield-within-count", ln)
        self.root.ny = SInt(_ie(ny) + 1)
        return None

    def ex_Starred(self, e, f):
        raise Unsupported("starred expression")

    # ======================================================================== calls
    def ex_Call(self, e, f):
        fn = self.eval(e.func, f)
        args = []
        for a in e.args:
            if isinstance(a, ast.Starred):
                args += self.unpack_iter(self.eval(a.value, f), None, a)
            else:
                args.append(self.eval(a, f))
        kwargs = {}
        for k in e.keywords:
            if k.arg is None:
                d = self.eval(k.value, f)
                if not isinstance(d, dict):
                    raise Unsupported("** of non-dict")
                kwargs.update(d)
            else:
                kwargs[k.arg] = self.eval(k.value, f)
        return self.call(fn, args, kwargs, e, f)

    def call(self, fn, args, kwargs, node, f):
        if isinstance(fn, Closure):
            return self.call_closure(fn, args, kwargs, node)
        if isinstance(fn, BoundMethod):
            return self.call_method(fn.recv, fn.name, args, kwargs, node, f)
        if isinstance(fn, MethodOf):
            return self.call(fn.func, [fn.obj] + list(args), kwargs, node, f)
        if isinstance(fn, type) and _is_repo(fn) and not _is_namedtuple_or_dataclass(fn) and not issubclass(fn, BaseException):
            return self.instantiate(fn, args, kwargs, node, f)
        if isinstance(fn, SpecFn):
            return fn(*args)
        if isinstance(fn, ConstFn):
            return fn.value
        if isinstance(fn, HSink):
            fn.put(args[0], self, node)
            return None
        if isinstance(fn, SEnum) and not kwargs and not any(_deep_sym(a) for a in args) and all(
                isinstance(t, types.BuiltinFunctionType) and isinstance(getattr(t, "__self__", None), (str, bytes, int, tuple, frozenset)) for t in fn.table):
            # the same method of an immutable builtin value for every table entry: evaluate entry-wise
            def _one(t):
                try:
                    return t(*args)
                except Exception as ex:
                    raise Unsupported("method call on a table entry raised %r" % (ex,))
            return fn.map(_one).collapse()
        if isinstance(fn, SEnum) and any(isinstance(t, MethodOf) for t in fn.table):
            groups = {}
            for i, t in enumerate(fn.table):
                if isinstance(t, MethodOf):
                    groups.setdefault(id(t.func), (t, []))[1].append(i)
            items = sorted(groups.values(), key=lambda g: g[1][0])
            for t, idxs in items[:-1]:
                if self.decide(z3.Or(*[fn.idx == i for i in idxs])):
                    return self.call(t, args, kwargs, node, f)
            t, idxs = items[-1]
            self.run.pc.append(z3.Or(*[fn.idx == i for i in idxs]) if not self.feasible(self.run.pc, z3.Not(z3.Or(*[fn.idx == i for i in idxs]))) else z3.BoolVal(True))
            if self.decide(z3.Or(*[fn.idx == i for i in idxs])):
                return self.call(t, args, kwargs, node, f)
            raise Unsupported("call through a symbolic table entry that is not a method")
        if isinstance(fn, SEnum):
            # table of formatter functions indexed symbolically: results are text only
            self.assumed.add("functions selected by a symbolic table index (opcode_arg_fmt formatters) are pure and return text (opaque)")
            return Opaque("fmt")
        if isinstance(fn, Opaque):
            return Opaque("call")
        if isinstance(fn, functools.partial):
            kw = dict(fn.keywords)
            kw.update(kwargs)
            return self.call(fn.func, list(fn.args) + list(args), kw, node, f)
        if isinstance(fn, types.MethodType) and _is_repo(fn.__func__):
            return self.call(fn.__func__, [fn.__self__] + list(args), kwargs, node, f)
        extc = self.contracts.get("%s:%s" % (getattr(fn, "__module__", None), getattr(fn, "__name__", None))) if (not isinstance(fn, type) or fn is types.CodeType) else None
        if extc and not (isinstance(fn, types.FunctionType) and _is_repo(fn)):
            # assumed contract on an external dependency: its precondition is a proof obligation at the
            # call site, its result is opaque
            c = extc[0] if isinstance(extc, list) else extc
            vals = dict(zip(c.external_args, args))
            vals.update(kwargs)
            vals["_engine"] = self
            if c.requires is not None:
                self.prove(call_by_names(c.requires, vals), "pre-of-%s" % c.qualname, getattr(node, "lineno", 0))
            self.assumed.add("external %s: assumed contract (result unmodelled)" % c.target)
            self.external_may_raise(c, node)
            if getattr(c, "external_result", None) is not None:
                return c.external_result(self, list(args), kwargs)
            return Opaque(c.qualname, c.result_pytype)
        model = _BUILTIN_MODELS.get(_fn_key(fn))
        if model is not None:
            return model(self, args, kwargs, node, f)
        if isinstance(fn, types.FunctionType) and _is_repo(fn):
            return self.call_repo(fn, args, kwargs, node, f)
        if isinstance(fn, type) and _is_namedtuple_or_dataclass(fn):
            return fn(*args, **kwargs)
        sym_args = any(_deep_sym(a) for a in list(args) + list(kwargs.values()))
        if not sym_args:
            try:
                return fn(*args, **kwargs)
            except Exception as ex:
                raise PyRaise(type(ex), str(ex), node)
        nm = getattr(fn, "__name__", repr(fn))
        if fn in (repr, str, format, hex, oct, bin, ascii) or nm in ("join", "format", "ljust", "rjust", "strip", "lstrip", "rstrip"):
            return Opaque(nm, str, src=tuple(args))
        if nm == "write" and getattr(fn, "__self__", None) in (sys.stderr, sys.stdout):
            self.effects = getattr(self, "effects", None) or []
            self.effects.append(("write", "stderr" if fn.__self__ is sys.stderr else "stdout", getattr(node, "lineno", 0)))
            return None
        raise Unsupported("call of %s with symbolic arguments (line %d)" % (nm, getattr(node, "lineno", 0)))

    def opaque_len(self, v):
        """len() of an unmodelled text / bytes value: a non-negative unknown, the same for the same object, equal to the length
        of the byte chunk a sink records for it"""
        tab = self.__dict__.setdefault("opaque_lens", {})
        ent = tab.get(id(v))
        if ent is None:
            n = self.fresh_int("len_" + (v.tag or "opaque"))
            self.run.pc.append(n.e >= 0)
            if v.tag == "repr" and v.src and isinstance(v.src[0], Opaque) and v.src[0].pytype is float:
                self.assumed.add("repr() of a float is at most 32 characters long (CPython: at most 24)")
                self.run.pc.append(n.e <= 32)
            ch = self.__dict__.get("opaque_seqs", {}).get(id(v))
            if ch is not None:
                self.run.pc.append(z3.Length(ch[1]) == n.e)
            tab[id(v)] = ent = (v, n)
        return ent[1]

    def external_may_raise(self, c, node):
        """an external callee whose contract says may_raise: fork on 'it raised some exception (unknown class)'"""
        if getattr(c, "may_raise", False):
            b = self.fresh_bool("raises_" + c.qualname.replace(".", "_"))
            if self.decide(b.e):
                raise PyRaise(AnyExc, "raised by external %s" % c.qualname, node)

    def bind_args(self, argspec, defaults, kwdefaults, args, kwargs, node, fname):
        names = [a.arg for a in argspec.posonlyargs + argspec.args]
        vals = {}
        if len(args) > len(names) and argspec.vararg is None:
            raise PyRaise(TypeError, "%s: too many positional arguments" % fname, node)
        for nm, v in zip(names, args):
            vals[nm] = v
        if argspec.vararg is not None:
            vals[argspec.vararg.arg] = tuple(args[len(names):])
        extra = {}
        for k, v in kwargs.items():
            if k in names or k in [a.arg for a in argspec.kwonlyargs]:
                if k in vals:
                    raise PyRaise(TypeError, "%s: multiple values for %s" % (fname, k), node)
                vals[k] = v
            elif argspec.kwarg is not None:
                extra[k] = v
            else:
                raise PyRaise(TypeError, "%s: unexpected keyword %s" % (fname, k), node)
        if argspec.kwarg is not None:
            vals[argspec.kwarg.arg] = extra
        nd = len(defaults)
        for i, nm in enumerate(names):
            if nm not in vals:
                j = i - (len(names) - nd)
                if j >= 0:
                    vals[nm] = defaults[j]
                else:
                    raise PyRaise(TypeError, "%s: missing argument %s" % (fname, nm), node)
        for a in argspec.kwonlyargs:
            if a.arg not in vals:
                if a.arg in kwdefaults:
                    vals[a.arg] = kwdefaults[a.arg]
                else:
                    raise PyRaise(TypeError, "%s: missing keyword-only argument %s" % (fname, a.arg), node)
        return vals

    def call_closure(self, fn, args, kwargs, node):
        vals = self.bind_args(fn.node.args, fn.defaults, fn.kwdefaults, args, kwargs, node, fn.name)
        fr = Frame(fn.frame.globs, fn.frame, fn.name, fn.frame.modname)
        fr.vars.update(vals)
        outer = getattr(fn.frame, "contract", None)
        if outer is not None and any(isinstance(k, tuple) and k[0] == fn.name for k in outer.loops):
            # loops of a nested function of the function under contract: specs keyed (function name, ordinal)
            fr.contract = outer
            fr.loops = extract.loops_of(fn.node)
            fr.loop_prefix = fn.name
        return self.run_body(fn.node, fr, node)

    def run_body(self, fnode, fr, callnode):
        is_gen = any(isinstance(n, (ast.Yield, ast.YieldFrom)) for n in _walk_fn(fnode))
        self.call_depth += 1
        if self.call_depth > 40:
            self.call_depth -= 1
            raise Unsupported("call depth limit (recursion without a contract?)")
        try:
            if is_gen:
                # uncontracted generator: run eagerly, collect yields (assumption recorded)
                self.assumed.add("inlined generator functions are run eagerly (their yields collected before the consumer runs)")
                fr.is_gen_frame = True
                fr.collect = []
                try:
                    self.exec_block(fnode.body, fr)
                except ReturnEx:
                    pass
                return HList(fr.collect)
            try:
                self.exec_block(fnode.body, fr)
            except ReturnEx as r:
                return r.value
            return None
        finally:
            self.call_depth -= 1

    def call_repo(self, fn, args, kwargs, node, f):
        key = "%s:%s" % (fn.__module__, fn.__qualname__)
        c = None
        cands = self.contracts.get(key) or []
        if not isinstance(cands, (list, tuple)):
            cands = [cands]
        if cands:
            fs0 = extract.find_function(fn.__module__, fn.__qualname__)
            vals0 = self.bind_args(fs0.node.args, list(fn.__defaults__ or ()), dict(fn.__kwdefaults__ or {}), args, kwargs, node, fn.__name__)
            for cand in cands:
                if cand.when is None or call_by_names(cand.when, vals0):
                    c = cand
                    break
            if c is None:
                raise Unsupported("no contract of %s applies to this call" % key)
        if c is not None and not c.inline:
            return self.call_by_contract(c, fn, args, kwargs, node, f)
        cur = self.current
        if cur is not None and (fn.__name__ in cur.opaque or key in cur.opaque):
            self.assumed.add("callee %s treated as a pure function with an unmodelled (opaque) result" % key)
            return Opaque(fn.__name__)
        fs = extract.find_function(fn.__module__, fn.__qualname__)
        self.inlined.add(key)
        for d in fs.node.decorator_list:
            dn = ast.unparse(d)
            if dn not in ("builtinify",):
                raise Unsupported("decorator %s on inlined function %s" % (dn, key))
        defaults = list(fn.__defaults__ or ())
        kwdefaults = dict(fn.__kwdefaults__ or {})
        vals = self.bind_args(fs.node.args, defaults, kwdefaults, args, kwargs, node, fn.__name__)
        fr = Frame(fn.__globals__, None, fn.__qualname__, fn.__module__)
        if fn.__closure__:
            # free variables of a real nested function: the values captured by the real closure cells
            for nm, cell in zip(fn.__code__.co_freevars, fn.__closure__):
                try:
                    fr.vars[nm] = cell.cell_contents
                except ValueError:
                    pass
        fr.vars.update(vals)
        fr.loops = extract.loops_of(fs.node)
        fr.contract = c if (c is not None and c.inline) else None
        return self.run_body(fs.node, fr, node)

    def call_by_contract(self, c, fn, args, kwargs, node, f):
        fs = extract.find_function(c.modname, c.qualname)
        vals = self.bind_args(fs.node.args, list(fn.__defaults__ or ()), dict(fn.__kwdefaults__ or {}), args, kwargs, node, fn.__name__)
        self.call_log = getattr(self, "call_log", None) or {}
        self.call_log.setdefault(c.target, []).append(dict(vals))
        ln = getattr(node, "lineno", 0)
        if c.requires is not None:
            self.prove(call_by_names(c.requires, dict(vals, _engine=self)), "pre-of-%s" % c.qualname, ln)
        if c.external_args:
            self.assumed.add("external %s: assumed contract (result unmodelled)" % c.target)
            self.external_may_raise(c, node)
            if getattr(c, "external_result", None) is not None:
                return c.external_result(self, list(args), kwargs)
            return Opaque(c.qualname, c.result_pytype)
        avail = dict(vals)
        for k, v in vals.items():
            avail["_old_" + k] = self.snapshot(v)
        # exceptional exits
        for et, cond in c.raises.items():
            if cond is True:
                continue
            ce = call_by_names(cond, avail)
            if self.decide(_be(ce)):
                if c.effect is not None:
                    c.effect(self, vals, None, et)
                raise PyRaise(et, "by contract of %s" % c.qualname, node)
        if c.kind == "generator" and c.yield_seq and c.yields_eq is not None and c.yield_count is None:
            # whole-sequence contract: the generated values are the spec sequences, component-wise
            seqs = call_by_names(c.yields_eq, avail)
            dec = getattr(c, "yield_decode", None)
            ln = z3.Length(seqs[0].e)

            def getq(i, seqs=seqs, dec=dec):
                comps = tuple(SInt(sq.e[_ie(i)]) for sq in seqs)
                return dec(comps) if dec is not None else (comps if len(comps) > 1 else comps[0])
            return SSeq(ln, getq, kind="list")
        if c.kind == "generator":
            cnt = call_by_names(c.yield_count, avail)
            ya = c.yield_at
            cache = {}

            def get(i, avail=avail, ya=ya, c=c, cache=cache):
                a2 = dict(avail)
                a2["_k"] = SInt(i) if not isinstance(i, SInt) else i
                if ya is not None:
                    return call_by_names(ya, a2)
                # contract by per-element postcondition: element i is a fresh value of the declared shape about
                # which exactly the call-site postcondition is assumed (memoised per index term)
                ie = z3.simplify(_ie(i))
                key = ie.get_id()
                if key in cache:
                    return cache[key][1]
                if c.yield_fresh is None:
                    raise Unsupported("generator contract of %s has neither yield_at nor yield_fresh" % c.qualname)
                elem, hs = c.yield_fresh(self, self.fresh("elem"))
                for h in hs:
                    self.run.pc.append(h)
                cache[key] = (ie, elem)
                a2["value"] = elem
                post = c.yield_post_call if c.yield_post_call is not None else c.yield_post
                for _, e in conjuncts(call_by_names(post, a2)):
                    self.run.pc.append(e)
                return elem
            if isinstance(cnt, SInt):
                self.run.pc.append(cnt.e >= 0)
            return SSeq(cnt.e if isinstance(cnt, SInt) else cnt, get, kind="list")
        result = None
        if c.result is not None:
            # fresh per call: two calls of the same callee on one path have unrelated results
            result, hs = c.result(self, self.fresh("r_" + c.qualname.split(".")[-1]))
            for h in hs:
                self.run.pc.append(h)
        if c.effect is not None:
            c.effect(self, vals, result, None)
        else:
            # default frame: byte sinks reachable from the arguments may have been written to
            for k, v in vals.items():
                if isinstance(v, HSink):
                    self.havoc_heap(v, k, True)
                elif isinstance(v, SObj):
                    for k2, v2 in list(v.__dict__["_f"].items()):
                        if isinstance(v2, HSink):
                            self.havoc_heap(v2, "%s.%s" % (k, k2), True)
        avail["result"] = result
        for k, v in vals.items():
            avail[k] = v
        if c.ensures is not None:
            before = len(self.run.pc)
            for _, e in conjuncts(call_by_names(c.ensures, avail)):
                self.run.pc.append(e)
            # vacuity guard: an assumed postcondition that contradicts the path (e.g. a callee's effect on the heap
            # that the call site did not havoc) would make every later obligation on this path trivially true
            if len(self.run.pc) > before and not self.feasible(self.run.pc):
                if self.feasible(self.run.pc[:before]):
                    raise Unsupported("the assumed postcondition of %s contradicts the state at the call site (line %d): "
                                      "missing frame/effect in the callee's contract" % (c.qualname, ln))
        return result

    def file_method(self, fp, name, args, node):
        n = fp.seq.length
        if name == "read":
            if fp.closed:
                raise PyRaise(ValueError, "I/O operation on closed file", node)
            p = fp._pos
            if not args or args[0] is None or (isinstance(args[0], int) and args[0] < 0):
                cnt = None
            else:
                cnt = self.as_int(args[0], node)
            pe, ne = _ie(p), _ie(n)
            if cnt is None:
                ln = z3.simplify(z3.If(ne > pe, ne - pe, z3.IntVal(0)))
            else:
                ce = _ie(cnt)
                if is_sym(cnt) and self.decide(ce < 0):
                    ln = z3.simplify(z3.If(ne > pe, ne - pe, z3.IntVal(0)))
                else:
                    avail = z3.If(ne > pe, ne - pe, z3.IntVal(0))
                    if self.valid(z3.And(ce >= 0, ce <= avail)):
                        ln = z3.simplify(ce)
                    else:
                        ln = z3.simplify(z3.If(ce <= avail, ce, avail))
            if z3.is_int_value(ln):
                ln = ln.as_long()
            seq = fp.seq
            out = SSeq(ln, lambda i, seq=seq, pe=pe: self._file_byte(seq, z3.simplify(pe + _ie(i))), kind="bytes")
            try:
                out.base = None
            except AttributeError:
                pass
            self.file_reads = getattr(self, "file_reads", [])
            self.file_reads.append((fp, p, ln))
            newp = z3.simplify(pe + _ie(ln))
            fp._pos = newp.as_long() if z3.is_int_value(newp) else SInt(newp)
            out_origin = (fp, p)
            self.origins = getattr(self, "origins", {})
            self.origins[id(out)] = (out, out_origin)
            return out
        if name == "seek":
            fp._pos = self.as_int(args[0], node)
            return fp._pos
        if name == "tell":
            return fp._pos
        if name == "close":
            fp.closed = True
            return None
        raise Unsupported("file method %s" % name)

    def _file_byte(self, seq, i):
        v = seq.get(i)
        if isinstance(v, SInt):
            sym.note_fact(sym.byte_fact(v.e))
        return v

    # ------------------------------------------------------------------------ methods on modelled objects
    def call_method(self, recv, name, args, kwargs, node, f):
        if name == "bit_length" and not args and isinstance(recv, (SInt, PyLong)) :
            # int.bit_length(): a fresh n constrained by true facts only (sound, incomplete): n >= 0, n == 0 iff x == 0,
            # and n <= k iff |x| < 2**k for the word sizes code compares against
            xe = _ie(recv.v if isinstance(recv, PyLong) else recv)
            n = z3.Int(self.fresh("bit_length"))
            ax = z3.If(xe < 0, -xe, xe)
            self.run.pc.append(z3.And(n >= 0, (n == 0) == (xe == 0)))
            for k in (1, 7, 8, 15, 16, 30, 31, 32, 62, 63, 64):
                self.run.pc.append((n <= k) == (ax < (1 << k)))
            self.assumed.add("int.bit_length(): axiomatised by n >= 0, n == 0 iff x == 0, n <= k iff |x| < 2**k for k in 1,7,8,15,16,30,31,32,62,63,64 (true facts only)")
            return SInt(n)
        if isinstance(recv, (HList, HSymList, HSetList, HRefTable)):
            if name == "append":
                self.list_append(recv, args[0])
                return None
            if name == "extend":
                self.list_extend(recv, args[0], node)
                return None
            if isinstance(recv, HList):
                if name == "pop" and not args:
                    if not recv.items:
                        raise PyRaise(IndexError, "pop from empty list", node)
                    return recv.items.pop()
                if name == "copy":
                    return HList(recv.items)
                if name == "reverse":
                    recv.items.reverse()
                    return None
                if name == "index" and not any(is_sym(x) for x in recv.items) and not is_sym(args[0]):
                    try:
                        return recv.items.index(args[0])
                    except ValueError:
                        raise PyRaise(ValueError, None, node)
            raise Unsupported("list method %s" % name)
        if isinstance(recv, HMap):
            if name == "get":
                k = self.as_int(args[0], node)
                default = args[1] if len(args) > 1 else None
                if self.decide(recv.contains(k).e):
                    return recv.at(k)
                return default
            raise Unsupported("dict method %s on a symbolic map" % name)
        if isinstance(recv, _LocalDict):
            if name == "get":
                k = args[0]
                if isinstance(k, SEnum):
                    d = dict(recv)
                    dflt = args[1] if len(args) > 1 else None
                    return k.map(lambda t: d.get(t, dflt) if _hashable(t) else dflt).collapse()
                if is_sym(k):
                    raise Unsupported("dict.get with symbolic key")
                return dict.get(recv, *args)
            if name == "items":
                return HList([(k, v) for k, v in dict.items(recv)])
            return getattr(dict, name)(recv, *args, **kwargs)
        if isinstance(recv, HFile):
            return self.file_method(recv, name, args, node)
        if isinstance(recv, HAcc):
            if name in ("extend", "append"):
                v = args[0]
                if name == "append":
                    codes = [self.as_int(v, node)]
                elif isinstance(v, HList):
                    codes = [self.as_int(x, node) for x in v.items]
                else:
                    c = SChars.of(v)
                    if c is None:
                        raise Unsupported("extending a tracked byte string by %s" % type(v).__name__)
                    codes = c.codes
                recv.put(self, codes, lambda: self.inv_env(f, {}), getattr(node, "lineno", 0))
                return None
            raise Unsupported("method %s on a tracked byte string" % name)
        if isinstance(recv, HSink):
            if name in ("write", "append"):
                if recv.closed:
                    raise PyRaise(ValueError, "I/O operation on closed file", node)
                recv.put(args[0], self, node)
                return None
            if name == "close":
                recv.closed = True
                return None
            if name == "flush":
                return None
            raise Unsupported("method %s on a byte sink" % name)
        if isinstance(recv, BinStr):
            if name == "count" and args == ["1"]:
                xe = _ie(recv.x)
                for bits in (4, 8, 16, 32):
                    if self.valid(z3.And(xe >= 0, xe < (1 << bits))):
                        tot = z3.IntVal(0)
                        for b in range(bits):
                            tot = tot + (xe / (1 << b)) % 2
                        return SInt(z3.simplify(tot))
                raise Unsupported("bin(x).count('1') of an operand that is not provably below 2**32")
            raise Unsupported("method %s on bin() of a symbolic value" % name)
        if isinstance(recv, SSeq):
            if name == "decode":
                self.assumed.add("bytes.decode(): the text is an unmodelled function of the bytes and the codec arguments (UTF-8 codec trusted)")
                return Opaque("decoded-text", str, src=(recv, tuple(args), tuple(sorted(kwargs.items()))))
            raise Unsupported("method %s on a symbolic sequence" % name)
        raise Unsupported("method %s on %s" % (name, type(recv).__name__))


class _LocalDict(dict):
    _pyvc_local = True


class BinStr(object):
    """bin(x) of a symbolic non-negative x; only .count("1") (population count) is modelled"""
    def __init__(self, x):
        self.x = x


def _hashable(t):
    try:
        hash(t)
        return True
    except TypeError:
        return False


def _neg(v):
    return -v


def _pos(v):
    return +v


def _inv(v):
    return ~v


def _load(t):
    import copy
    t2 = copy.copy(t)
    t2.ctx = ast.Load()
    return t2


def _walk_fn(fnode):
    """nodes of a function body, not descending into nested function definitions"""
    stack = list(fnode.body)
    while stack:
        n = stack.pop()
        yield n
        for c in ast.iter_child_nodes(n):
            if isinstance(c, (ast.FunctionDef, ast.AsyncFunctionDef, ast.Lambda, ast.ClassDef)):
                continue
            stack.append(c)


def _maybe_mutated_names(nodes):
    """names that appear as a call receiver or as a call argument (may be mutated by the callee)"""
    out = set()
    for n in nodes:
        for c in ast.walk(n):
            if isinstance(c, ast.Call):
                if isinstance(c.func, ast.Attribute):
                    for x in ast.walk(c.func.value):
                        if isinstance(x, ast.Name):
                            out.add(x.id)
                for a in list(c.args) + [k.value for k in c.keywords]:
                    for x in ast.walk(a):
                        if isinstance(x, ast.Name):
                            out.add(x.id)
            elif isinstance(c, ast.AugAssign) and isinstance(c.target, ast.Name):
                out.add(c.target.id)
            elif isinstance(c, (ast.Assign,)):
                for t in c.targets:
                    if isinstance(t, (ast.Subscript, ast.Attribute)):
                        for x in ast.walk(t):
                            if isinstance(x, ast.Name):
                                out.add(x.id)
    return out


def _is_repo(fn):
    mod = getattr(fn, "__module__", "") or ""
    return mod == "xdis" or mod.startswith("xdis.")


def _is_namedtuple_or_dataclass(cls):
    if not _is_repo(cls) and cls.__module__ not in ("collections",):
        return False
    return (issubclass(cls, tuple) and hasattr(cls, "_fields")) or hasattr(cls, "__dataclass_fields__")


def _deep_sym(v):
    if isinstance(v, (SVal, HList, HSymList, HSetList, HIter, HMap, SObj, Closure, BoundMethod)):
        if isinstance(v, HList):
            return any(_deep_sym(x) for x in v.items) or True
        return True
    if isinstance(v, tuple):
        return any(_deep_sym(x) for x in v)
    if isinstance(v, dict) and getattr(v, "_pyvc_local", False):
        return any(_deep_sym(x) for x in v.values())
    if isinstance(v, tuple) and hasattr(v, "_fields"):
        return any(_deep_sym(x) for x in v)
    if hasattr(v, "__dataclass_fields__"):
        return any(_deep_sym(getattr(v, k)) for k in v.__dataclass_fields__)
    return False


def _fn_key(fn):
    try:
        hash(fn)
        return fn
    except TypeError:
        return None


# ============================================================================ builtin models
_BUILTIN_MODELS = {}


def model(*fns):
    def deco(m):
        for fn in fns:
            _BUILTIN_MODELS[fn] = m
        return m
    return deco


@model(len)
def _m_len(self, args, kwargs, node, f):
    v = args[0]
    if isinstance(v, SSeq):
        return v.length if isinstance(v.length, int) else SInt(v.len_e())
    if isinstance(v, HList):
        return len(v.items)
    if isinstance(v, HSymList):
        return SInt(v.n)
    if isinstance(v, HRefTable):
        return v.length
    if isinstance(v, HSetList):
        raise Unsupported("len() of a list abstracted as a set")
    if isinstance(v, SEnum):
        return v.map(len).collapse()
    if isinstance(v, (SInt, SBool, SOpt, HIter)) or v is None:
        raise PyRaise(TypeError, "object has no len()", node)
    if isinstance(v, SObj):
        raise PyRaise(TypeError, "object has no len()", node)
    if isinstance(v, Opaque):
        return self.opaque_len(v)
    try:
        return len(v)
    except TypeError:
        raise PyRaise(TypeError, "object has no len()", node)


@model(range)
def _m_range(self, args, kwargs, node, f):
    a = [self.as_int(x, node) for x in args]
    if len(a) == 1:
        start, stop, step = 0, a[0], 1
    elif len(a) == 2:
        start, stop, step = a[0], a[1], 1
    else:
        start, stop, step = a
    if not is_sym(start) and not is_sym(stop) and not is_sym(step):
        return range(start, stop, step)
    return self.range_seq(start, stop, step)


@model(iter)
def _m_iter(self, args, kwargs, node, f):
    v = args[0]
    if isinstance(v, HIter):
        return v
    seq = self.to_seq(v)
    if seq is None:
        if is_sym(v):
            raise PyRaise(TypeError, "object is not iterable", node)
        seq = self.to_seq(list(v))
    return HIter(seq, 0)


@model(next)
def _m_next(self, args, kwargs, node, f):
    it = args[0]
    if not isinstance(it, HIter):
        raise Unsupported("next() of %r" % type(it).__name__)
    p = it._pos
    n = it.seq.length
    if isinstance(p, int) and isinstance(n, int):
        more = p < n
    else:
        more = self.decide(_ie(p) < _ie(n))
    if more:
        v = it.seq.get(_ie(p) if is_sym(p) else z3.IntVal(p))
        if it.seq.kind == "bytes" and isinstance(v, SInt):
            self.run.pc.append(sym.byte_fact(v.e))
        it._pos = (p + 1) if isinstance(p, int) else SInt(_ie(p) + 1)
        return v
    if len(args) > 1:
        return args[1]
    raise PyRaise(StopIteration, None, node)


@model(isinstance)
def _m_isinstance(self, args, kwargs, node, f):
    v, t = args
    def one(v, t):
        if isinstance(v, SInt):
            return t in (int, object)
        if isinstance(v, SBool):
            return t in (int, bool, object)
        if isinstance(v, SOpt):
            raise Unsupported("isinstance of Optional value")
        if isinstance(v, SSeq):
            return {"bytes": t in (bytes, object), "list": t in (list, object), "tuple": t in (tuple, object)}[v.kind]
        if isinstance(v, (HList, HSymList, HSetList)):
            return t in (list, object)
        if isinstance(v, HMap):
            return t in (dict, object)
        if isinstance(v, SEnum):
            r = v.map(lambda x: isinstance(x, t)).collapse()
            return r
        if isinstance(v, Opaque):
            if v.pytype is not None:
                return issubclass(v.pytype, t)
            if t is str:
                return True
            raise Unsupported("isinstance of opaque value")
        if isinstance(v, SObj):
            cls = v.__dict__["_f"].get("__class__")
            if cls is not None:
                return issubclass(cls, t)
            return t is object
        if isinstance(v, _LocalDict):
            return t in (dict, object)
        return isinstance(v, t)
    if isinstance(t, tuple):
        rs = [one(v, x) for x in t]
        if all(isinstance(r, bool) for r in rs):
            return any(rs)
        return sym.Or(*rs)
    return one(v, t)


@model(hasattr)
def _m_hasattr(self, args, kwargs, node, f):
    v, name = args
    if isinstance(v, SObj):
        return name in v.__dict__["_f"]
    if isinstance(v, (SInt, SBool, SSeq, SOpt, HList, HSymList, HSetList, HMap, HIter)):
        if isinstance(v, SSeq) and v.kind == "bytes":
            return hasattr(b"", name)
        if isinstance(v, (HList, HSymList, HSetList)):
            return hasattr([], name)
        if isinstance(v, SInt):
            return hasattr(0, name)
        raise Unsupported("hasattr on %s" % type(v).__name__)
    if isinstance(v, SVal):
        raise Unsupported("hasattr on %s" % type(v).__name__)
    return hasattr(v, name)


@model(getattr)
def _m_getattr(self, args, kwargs, node, f):
    v, name = args[0], args[1]
    if isinstance(name, SEnum) and isinstance(v, SObj):
        # attribute chosen by a symbolic table lookup (dispatch by name)
        def one(t):
            if not isinstance(t, str):
                return MISSING
            try:
                return self.getattr(v, t, node)
            except PyRaise:
                return MISSING
        r = name.map(one)
        if self.decide(r.cond_for(lambda t: t is MISSING)):
            if len(args) > 2:
                return args[2]
            raise PyRaise(AttributeError, "dispatch target missing", node)
        return r
    if is_sym(name):
        raise Unsupported("getattr with symbolic name")
    try:
        return self.getattr(v, name, node)
    except PyRaise as pr:
        if pr.exc_type is AttributeError and len(args) > 2:
            return args[2]
        raise


@model(list)
def _m_list(self, args, kwargs, node, f):
    if not args:
        return HList([])
    v = args[0]
    if isinstance(v, SSeq) and not isinstance(v.length, int):
        return SSeq(v.length, v.get, kind="list", base=v.base)
    return HList(self.unpack_iter(v, None, node))


@model(tuple)
def _m_tuple(self, args, kwargs, node, f):
    if not args:
        return ()
    v = args[0]
    if isinstance(v, SSeq) and not isinstance(v.length, int):
        return SSeq(v.length, v.get, kind="tuple", base=v.base)
    return tuple(self.unpack_iter(v, None, node))


@model(dict)
def _m_dict(self, args, kwargs, node, f):
    if not args and not kwargs and getattr(getattr(self, "current", None), "handle_dicts", False):
        # the contract under verification states its result as a dict of abstract object handles
        return HPairDict()
    d = _LocalDict()
    if args:
        v = args[0]
        if isinstance(v, HMap):
            return v
        if isinstance(v, SSeq) and not isinstance(v.length, int):
            # dict(<sequence of (int, int) pairs of symbolic length>): an abstract int -> int map that remembers
            # the sequence it was built from (only plumbing is proved about it)
            m = HMap(self.fresh("dict"))
            m.source = v
            self.assumed.add("dict(<generated (offset, line) pairs>) is modelled as an abstract int -> int map tied to the sequence it was built from (builtin dict semantics trusted)")
            return m
        for kv in self.unpack_iter(v, None, node):
            k, val = self.unpack_iter(kv, 2, node)
            if is_sym(k):
                raise Unsupported("dict() with symbolic key")
            d[k] = val
    d.update(kwargs)
    return d


@model(dict.fromkeys)
def _m_fromkeys(self, args, kwargs, node, f):
    """dict.fromkeys(xs): only its key order (first occurrences) is modelled; equality of symbolic
    elements is decided by forking"""
    items = self.unpack_iter(args[0], None, node)
    kept = []
    for x in items:
        dup = False
        for y in kept:
            if self.test(self.equal(x, y)):
                dup = True
                break
        if not dup:
            kept.append(x)
    return HList(kept)


@model(super)
def _m_super(self, args, kwargs, node, f):
    if args:
        return SuperProxy(args[1], args[0])
    fr = f
    while fr is not None and "self" not in fr.vars:
        fr = fr.parent
    if fr is None:
        raise Unsupported("zero-argument super() outside a method")
    obj = fr.vars["self"]
    clsname = fr.fname.split(".")[0]
    mod = sys.modules.get(fr.modname)
    cls = getattr(mod, clsname, None)
    if cls is None:
        raise Unsupported("zero-argument super(): enclosing class not found")
    return SuperProxy(obj, cls)


@model(type)
def _m_type(self, args, kwargs, node, f):
    if len(args) != 1:
        raise Unsupported("three-argument type()")
    v = args[0]
    if isinstance(v, SObj):
        cls = v.__dict__["_f"].get("__class__")
        if cls is None:
            raise Unsupported("type() of a record without a class")
        return cls
    if isinstance(v, Opaque):
        if v.pytype is None:
            raise Unsupported("type() of an untyped opaque value")
        return v.pytype
    if isinstance(v, SInt):
        return int
    if isinstance(v, PyLong):
        import xdis.cross_types as _ct
        return _ct.LongTypeForPython3
    if isinstance(v, SBool):
        return bool
    if isinstance(v, SSeq):
        return {"bytes": bytes, "list": list, "tuple": tuple}[v.kind]
    if isinstance(v, (HList, HSymList, HSetList)):
        return list
    if isinstance(v, SVal):
        raise Unsupported("type() of %s" % type(v).__name__)
    return type(v)


@model(setattr)
def _m_setattr(self, args, kwargs, node, f):
    obj, name, val = args
    if isinstance(obj, SObj) and not is_sym(name):
        setattr(obj, name, val)
        return None
    raise Unsupported("setattr on %s" % type(obj).__name__)


def _deepcopy_value(v, memo):
    if isinstance(v, SObj):
        if id(v) in memo:
            return memo[id(v)]
        new = SObj()
        memo[id(v)] = new
        for k, x in v.__dict__["_f"].items():
            new.__dict__["_f"][k] = x if k == "__class__" else _deepcopy_value(x, memo)
        return new
    if isinstance(v, HList):
        return HList([_deepcopy_value(x, memo) for x in v.items])
    if isinstance(v, _LocalDict):
        d = _LocalDict()
        for k, x in v.items():
            d[k] = _deepcopy_value(x, memo)
        return d
    return v          # immutable values (ints, bytes, tuples, tokens) are shared by deepcopy as well


import copy as _copy


@model(_copy.deepcopy, _copy.copy)
def _m_deepcopy(self, args, kwargs, node, f):
    return _deepcopy_value(args[0], {})


@model(frozenset, set)
def _m_setctor(self, args, kwargs, node, f):
    if args and isinstance(args[0], (STupleSeq, tuple)) and (isinstance(args[0], STupleSeq) or any(is_sym(x) for x in args[0])):
        kind = frozenset if node is not None and isinstance(getattr(node, "func", None), ast.Name) and node.func.id == "frozenset" else set
        return Opaque(kind.__name__, kind, src=STupleSeq.of(args[0]))
    if not args:
        return set() if (node is not None and getattr(getattr(node, "func", None), "id", "") == "set") else frozenset()
    try:
        kind = frozenset if getattr(getattr(node, "func", None), "id", "") == "frozenset" else set
        return kind(args[0])
    except TypeError as ex:
        raise PyRaise(TypeError, str(ex), node)


@model(bool)
def _m_bool(self, args, kwargs, node, f):
    if not args:
        return False
    t = self.truthy(args[0])
    return t if isinstance(t, bool) else SBool(t)


@model(int)
def _m_int(self, args, kwargs, node, f):
    if not args:
        return 0
    v = args[0]
    if isinstance(v, PyLong) and len(args) == 1:
        return v.v
    if isinstance(v, (SInt, SBool, SEnum)) and len(args) == 1:
        return self.as_int(v, node)
    if is_sym(v) or isinstance(v, Opaque):
        raise Unsupported("int() of %s" % type(v).__name__)
    try:
        return int(*args, **kwargs)
    except (ValueError, TypeError) as ex:
        raise PyRaise(type(ex), str(ex), node)


@model(abs)
def _m_abs(self, args, kwargs, node, f):
    v = self.as_int(args[0], node)
    if isinstance(v, int):
        return abs(v)
    return SInt(z3.If(v.e >= 0, v.e, -v.e))


@model(ord)
def _m_ord(self, args, kwargs, node, f):
    v = args[0]
    if isinstance(v, SChars):
        if len(v.codes) != 1:
            raise PyRaise(TypeError, "ord() expected a character", node)
        return SInt(_ie(v.codes[0])) if not isinstance(v.codes[0], int) else v.codes[0]
    if isinstance(v, SSeq):
        if isinstance(v.length, int) and v.length == 1:
            return self.seq_get(v, 0, node)
        if isinstance(v.length, int):
            raise PyRaise(TypeError, "ord() expected a character, but string of length %d found" % v.length, node)
        # symbolic length (a read near the end of the data): exactly one element, or TypeError
        if self.decide(_ie(v.length) == 1):
            return self.seq_get(v, 0, node)
        raise PyRaise(TypeError, "ord() expected a character", node)
    if isinstance(v, SEnum) and all(isinstance(t, str) and len(t) == 1 for t in v.table):
        return v.map(ord).collapse()
    if is_sym(v):
        raise PyRaise(TypeError, "ord() expected string of length 1", node)
    try:
        return ord(v)
    except TypeError as ex:
        raise PyRaise(TypeError, str(ex), node)


from .engine import CHR_TABLE as _CHR_TABLE


@model(chr)
def _m_chr(self, args, kwargs, node, f):
    v = args[0]
    if is_sym(v):
        ve = _ie(self.as_int(v, node))
        if self.valid(z3.And(ve >= 0, ve < 256)):
            return SEnum(ve, _CHR_TABLE)
        return Opaque("chr")
    return chr(v)


@model(min, max)
def _m_minmax(self, args, kwargs, node, f):
    fn = max if (isinstance(node, ast.Call) and isinstance(node.func, ast.Name) and node.func.id == "max") else min
    if len(args) == 2 and not kwargs and all(isinstance(a, (int, SInt)) and not isinstance(a, bool) for a in args):
        a, b = _ie(args[0]), _ie(args[1])
        return SInt(z3.If(a >= b, a, b) if fn is max else z3.If(a <= b, a, b))
    raise Unsupported("min/max with symbolic arguments")


@model(zip)
def _m_zip(self, args, kwargs, node, f):
    seqs = []
    for a in args:
        s = self.to_seq(a)
        if s is None:
            raise Unsupported("zip() of %s" % type(a).__name__)
        seqs.append(s)
    if all(isinstance(s.length, int) for s in seqs):
        n = min(s.length for s in seqs)
        return HList([tuple(self._seq_elem(s, z3.IntVal(i)) for s in seqs) for i in range(n)])
    ln = _ie(seqs[0].length)
    for s in seqs[1:]:
        l2 = _ie(s.length)
        ln = z3.If(ln <= l2, ln, l2)
    return SSeq(z3.simplify(ln), lambda i: tuple(self._seq_elem(s, i) for s in seqs), kind="list")


def _seq_elem(self, s, i):
    v = s.get(i)
    if s.kind == "bytes" and isinstance(v, SInt):
        self.run.pc.append(sym.byte_fact(v.e))
    return v
Interp._seq_elem = _seq_elem


@model(enumerate)
def _m_enumerate(self, args, kwargs, node, f):
    v = args[0]
    start = args[1] if len(args) > 1 else kwargs.get("start", 0)
    if isinstance(v, HIter):
        return HEnum(v, start)
    s = self.to_seq(v)
    if s is None:
        raise Unsupported("enumerate() of %s" % type(v).__name__)
    if isinstance(s.length, int):
        return HList([(start + i if isinstance(start, int) else SInt(_ie(start) + i), self._seq_elem(s, z3.IntVal(i))) for i in range(s.length)])
    return SSeq(s.length, lambda i: (SInt(_ie(i) + _ie(start)), self._seq_elem(s, i)), kind="list")


@model(bytes, bytearray)
def _m_bytes(self, args, kwargs, node, f):
    if not args:
        return b""
    v = args[0]
    if isinstance(v, HAcc):
        return v          # bytes(<tracked byte string>): the same ghost reader state
    if isinstance(v, SSeq):
        return SSeq(v.length, v.get, kind="bytes", base=v.base)
    if isinstance(v, HList):
        if any(is_sym(x) for x in v.items):
            items = list(v.items)
            for x in items:
                xe = _ie(self.as_int(x, node))
                if not self.decide(z3.And(xe >= 0, xe <= 255)):
                    raise PyRaise(ValueError, "bytes must be in range(0, 256)", node)
            return SSeq(len(items), lambda i, items=items: self._concrete_index(items, i), kind="bytes")
        try:
            return bytes(v.items)
        except (ValueError, TypeError) as ex:
            raise PyRaise(type(ex), str(ex), node)
    if is_sym(v):
        raise Unsupported("bytes() of %s" % type(v).__name__)
    try:
        return bytes(*args, **kwargs)
    except (ValueError, TypeError) as ex:
        raise PyRaise(type(ex), str(ex), node)


@model(print)
def _m_print(self, args, kwargs, node, f):
    fr = self.root
    if getattr(self, "effects", None) is not None:
        self.effects.append(("print", getattr(node, "lineno", 0), "file" in kwargs))
    return None


@model(repr, str)
def _m_repr(self, args, kwargs, node, f):
    if args and (_deep_sym(args[0])):
        return Opaque("repr" if f is not None and isinstance(node, ast.Call) and isinstance(node.func, ast.Name) and node.func.id == "repr" else "text", str, src=tuple(args))
    try:
        return (repr if node is None else repr)(args[0]) if False else None
    except Exception:
        pass
    return None


def _m_text(fn):
    def m(self, args, kwargs, node, f):
        if any(_deep_sym(a) for a in args):
            return Opaque(fn.__name__, str, src=tuple(args))
        try:
            return fn(*args, **kwargs)
        except Exception as ex:
            raise PyRaise(type(ex), str(ex), node)
    return m


for _fn in (repr, str, hex, format, ascii, oct):
    _BUILTIN_MODELS[_fn] = _m_text(_fn)


@model(bin)
def _m_bin(self, args, kwargs, node, f):
    if isinstance(args[0], (SInt, SBool)):
        return BinStr(args[0])
    if _deep_sym(args[0]):
        return Opaque("bin")
    return bin(args[0])


@model(_struct.iter_unpack)
def _m_iter_unpack(self, args, kwargs, node, f):
    fmt, data = args
    if is_sym(fmt):
        raise Unsupported("struct.iter_unpack with symbolic format")
    if not is_sym(data):
        try:
            return HList(list(_struct.iter_unpack(fmt, data)))
        except _struct.error as ex:
            raise PyRaise(_struct.error, str(ex), node)
    seq = self.to_seq(data)
    size = _struct.calcsize(fmt)
    body = fmt[1:] if fmt[0] in "<>=!@" else fmt
    if fmt[0] in (">", "!") or any(ch not in "Bb" for ch in body):
        raise Unsupported("struct.iter_unpack format %r" % fmt)
    ne = seq.len_e()
    if self.decide(z3.Or(ne % size != 0, ne == 0) if False else (ne % size != 0)):
        raise PyRaise(_struct.error, "iterative unpacking requires a buffer of a multiple of %d bytes" % size, node)

    def get(i, seq=seq, body=body, size=size):
        out = []
        for j, ch in enumerate(body):
            b = seq.get(z3.simplify(_ie(i) * size + j))
            if isinstance(b, SInt):
                sym.note_fact(sym.byte_fact(b.e))
            if ch == "b":
                be = _ie(b)
                b = SInt(z3.If(be >= 128, be - 256, be))
            out.append(b)
        return tuple(out)
    return SSeq(z3.simplify(ne / size), get, kind="list")


import traceback as _traceback


@model(_traceback.print_exc)
def _m_print_exc(self, args, kwargs, node, f):
    self.effects = getattr(self, "effects", None) or []
    self.effects.append(("write", "stderr", getattr(node, "lineno", 0)))
    return None


@model(open)
def _m_open(self, args, kwargs, node, f):
    mode = args[1] if len(args) > 1 else kwargs.get("mode", "r")
    if is_sym(mode) or not isinstance(mode, str):
        raise Unsupported("open() with a symbolic mode")
    if "w" in mode and "b" in mode:
        # a file opened for binary writing is a fresh byte sink; nothing is written to the real file system
        self.opened = getattr(self, "opened", None) or []
        sink = HSink("file%d" % len(self.opened))
        sink.path = args[0]
        self.opened.append(sink)
        return sink
    raise Unsupported("open() in mode %r" % (mode,))


_PACK_RANGES = {"B": (0, 255), "H": (0, 65535), "I": (0, (1 << 32) - 1), "L": (0, (1 << 32) - 1), "Q": (0, (1 << 64) - 1),
                "b": (-128, 127), "h": (-32768, 32767), "i": (-(1 << 31), (1 << 31) - 1), "l": (-(1 << 31), (1 << 31) - 1), "q": (-(1 << 63), (1 << 63) - 1)}
_PACK_SIZE = {"B": 1, "H": 2, "I": 4, "L": 4, "Q": 8, "b": 1, "h": 2, "i": 4, "l": 4, "q": 8}


@model(_struct.pack)
def _m_pack(self, args, kwargs, node, f):
    fmt = args[0]
    vals = list(args[1:])
    if is_sym(fmt):
        raise Unsupported("struct.pack with symbolic format")
    if not any(_deep_sym(v) for v in vals):
        try:
            return _struct.pack(fmt, *vals)
        except _struct.error as ex:
            raise PyRaise(_struct.error, str(ex), node)
    if not fmt.startswith("<"):
        raise Unsupported("struct.pack format %r (only little-endian standard sizes are modelled)" % fmt)
    codes = []
    body = fmt[1:]
    if len(body) != len(vals):
        raise Unsupported("struct.pack format %r with repeat counts" % fmt)
    for ch, v in zip(body, vals):
        if ch == "c":
            if isinstance(v, (bytes, bytearray)) and len(v) == 1:
                codes.append(v[0])
                continue
            raise Unsupported("struct.pack 'c' of a non-constant")
        if ch not in _PACK_RANGES:
            raise Unsupported("struct.pack format character %r" % ch)
        lo, hi = _PACK_RANGES[ch]
        if isinstance(v, bool) or isinstance(v, SBool):
            v = self.as_int(v, node)
        if not isinstance(v, (int, SInt)):
            raise PyRaise(_struct.error, "required argument is not an integer", node)
        ve = _ie(v)
        if not self.decide(z3.And(ve >= lo, ve <= hi)):
            raise PyRaise(_struct.error, "argument out of range", node)
        m = ve if lo == 0 else z3.If(ve < 0, ve + (hi - lo + 1), ve)
        for j in range(_PACK_SIZE[ch]):
            codes.append(z3.simplify((m / (1 << (8 * j))) % 256))
    return SChars(codes, "bytes")


@model(_struct.unpack)
def _m_unpack(self, args, kwargs, node, f):
    fmt, data = args
    if is_sym(fmt):
        raise Unsupported("struct.unpack with symbolic format")
    seq = self.to_seq(data)
    if seq is None:
        raise Unsupported("struct.unpack of %s" % type(data).__name__)
    if not is_sym(data):
        try:
            return _struct.unpack(fmt, data)
        except _struct.error as ex:
            raise PyRaise(_struct.error, str(ex), node)
    size = _struct.calcsize(fmt)
    if isinstance(seq.length, int):
        ok = seq.length == size
    else:
        ok = self.decide(seq.len_e() == size)
    if not ok:
        raise PyRaise(_struct.error, "unpack requires a buffer of %d bytes" % size, node)
    order = "<"
    body = fmt
    if fmt[0] in "<>=!@":
        order, body = fmt[0], fmt[1:]
    if order in (">", "!"):
        raise Unsupported("big-endian struct format")
    out = []
    pos = 0
    for ch in body:
        w = {"B": 1, "b": 1, "c": 1, "H": 2, "h": 2, "I": 4, "i": 4, "L": 4, "l": 4, "Q": 8, "q": 8, "d": 8}.get(ch)
        if w is None or (order == "@" and ch in "lL"):
            raise Unsupported("struct format character %r" % ch)
        bs = [self._seq_elem(seq, z3.IntVal(pos + j)) for j in range(w)]
        pos += w
        if ch == "d":
            self.assumed.add("struct.unpack('<d'): the float is the IEEE-754 value of the 8 bytes (trusted); modelled as an opaque value tied to those bytes")
            out.append(Opaque("float64", float, src=(seq, pos - 8)))
            continue
        if ch == "c":
            b0 = bs[0]
            out.append(bytes([b0]) if isinstance(b0, int) else SSeq(1, lambda i, b0=b0: b0, kind="bytes"))
            continue
        val = z3.IntVal(0)
        for j, b in enumerate(bs):
            val = val + _ie(b) * (1 << (8 * j))
        if ch in "bhilq":
            val = z3.If(val >= (1 << (8 * w - 1)), val - (1 << (8 * w)), val)
        val = z3.simplify(val)
        out.append(val.as_long() if z3.is_int_value(val) else SInt(val))
    return tuple(out)
