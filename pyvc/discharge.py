"""Discharge obligations with z3 (python API) and, on `unknown`, with the cvc5 binary on the same
SMT-LIB text.  unsat -> discharged; sat -> counter-model; unknown/timeout -> undecided (never a violation)."""
import hashlib
import os
import subprocess
import tempfile
import time
import z3


def _query_text(ob):
    s = z3.Solver()
    for h in list(ob.hyps) + list(_extra(ob)):
        s.add(h)
    s.add(z3.Not(ob.goal))
    return s.to_smt2()


def obligation_hash(ob):
    """structural key of the query: z3 hash-conses terms, so equal formulas have equal ids"""
    return (tuple(sorted(set(h.get_id() for h in ob.hyps))), ob.goal.get_id())


def _extra(ob):
    from . import spec as _spec
    ex = getattr(ob, "_extra", None)
    if ex is None:
        ex = _spec.unfold_closure(list(ob.hyps) + [ob.goal], getattr(ob, 'unfold_depth', None))
        try:
            ob._extra = ex
        except AttributeError:
            pass
    return ex


def _check(hyps, goal, timeout_ms, opts=(), extra=()):
    hyps = list(hyps) + list(extra)
    s = z3.Solver()
    s.set("timeout", int(timeout_ms))
    for k, v in opts:
        s.set(k, v)
    for h in hyps:
        s.add(h)
    s.add(z3.Not(goal))
    r = s.check()
    return r, s


_QCACHE = {}


def has_quantifier(e):
    k = e.get_id()
    r = _QCACHE.get(k)
    if r is not None:
        return r[1]
    found = False
    stack = [e]
    seen = set()
    while stack:
        x = stack.pop()
        if x.get_id() in seen:
            continue
        seen.add(x.get_id())
        if z3.is_quantifier(x):
            found = True
            break
        stack.extend(x.children())
    _QCACHE[k] = (e, found)
    return found


def solve(ob, timeout_ms=10000, use_cvc5=True, fast=False):
    """returns (status, backend, seconds, model-or-None); status in discharged|refuted|unknown"""
    t0 = time.time()
    g = z3.simplify(ob.goal)
    if z3.is_true(g):
        return "discharged", "simplifier", time.time() - t0, None
    extra = _extra(ob)
    # 0. quantifier-free part of the hypotheses only (sound for 'unsat'; most obligations do not need the
    #    quantified well-formedness preconditions and the solver is much faster without them)
    qf = [h for h in ob.hyps if not has_quantifier(h)]
    if len(qf) != len(ob.hyps) and not has_quantifier(ob.goal):
        r0, _ = _check(qf, ob.goal, min(2000, timeout_ms), extra=[x for x in extra if not has_quantifier(x)])
        if r0 == z3.unsat:
            return "discharged", "z3(qf hyps)", time.time() - t0, None
    r, s = _check(ob.hyps, ob.goal, min(2000, timeout_ms), extra=extra)
    if r == z3.unsat:
        return "discharged", "z3", time.time() - t0, None
    if r == z3.sat:
        return "refuted", "z3", time.time() - t0, s.model()
    if fast:
        # the unit already has several undecided obligations (it cannot be reported as proved any more): no long attempts
        return "unknown", "z3 (short attempts only: the unit is already undecided)", time.time() - t0, None
    # 2. without the facts that were themselves proved earlier on this path (logically redundant
    #    hypotheses that sometimes derail the sequence solver); only 'unsat' is used from this attempt
    derived = getattr(ob, "derived", None) or set()
    if derived:
        core = [h for i, h in enumerate(ob.hyps) if i not in derived]
        r1, _ = _check(core, ob.goal, timeout_ms, extra=extra)
        if r1 == z3.unsat:
            return "discharged", "z3(core hyps)", time.time() - t0, None
    # 3. all hypotheses, full budget, other arithmetic solver
    r, s2 = _check(ob.hyps, ob.goal, timeout_ms, (("smt.arith.solver", 2),), extra=extra)
    if r == z3.unsat:
        return "discharged", "z3(arith.solver=2)", time.time() - t0, None
    if r == z3.sat:
        return "refuted", "z3(arith.solver=2)", time.time() - t0, s2.model()
    if use_cvc5 and os.path.exists("/usr/bin/cvc5"):
        txt = s.to_smt2()
        if "define-fun-rec" not in txt and "declare-datatypes" not in txt:
            try:
                with tempfile.NamedTemporaryFile("w", suffix=".smt2", delete=False) as fh:
                    fh.write("(set-logic ALL)\n" + txt)
                    path = fh.name
                try:
                    out = subprocess.run(["/usr/bin/cvc5", "--tlimit=%d" % timeout_ms, path], capture_output=True, text=True, timeout=timeout_ms / 1000.0 + 5)
                    first = (out.stdout.strip().splitlines() or [""])[0]
                finally:
                    os.unlink(path)
                if first == "unsat":
                    return "discharged", "cvc5", time.time() - t0, None
            except Exception:
                pass
    return "unknown", "z3+cvc5", time.time() - t0, None


def discharge_all(obligations, timeout_ms=10000, deadline=None):
    """solve every obligation, de-duplicating textually identical queries; fills ob.status etc.
    After `deadline` (wall clock) the remaining obligations are left undecided ('unknown')."""
    cache = {}
    n_unknown = 0
    for ob in obligations:
        if deadline is not None and time.time() > deadline + 180:
            ob.status, ob.backend, ob.time_s, ob.model = "unknown", "unit time budget exhausted", 0.0, None
            continue
        try:
            h = obligation_hash(ob)
        except Exception:
            h = None
        if h is not None and h in cache:
            ob.status, ob.backend, ob.time_s, ob.model = cache[h]
            ob.backend = ob.backend + " (dedup)"
            ob.time_s = 0.0
            continue
        st, be, dt, model = solve(ob, timeout_ms, fast=(n_unknown >= 6))
        if st == "unknown":
            n_unknown += 1
        ob.status, ob.backend, ob.time_s, ob.model = st, be, dt, model
        if h is not None:
            cache[h] = (st, be, dt, model)
    return obligations
