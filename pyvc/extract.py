"""Mechanical extraction of function ASTs from /repo's *current* source files (every run).

What extraction drops (complete list): comments, type annotations, docstrings, `pass`.  Decorators are
kept in the AST and listed; only `@builtinify` / `@dataclass(...)` / `@classmethod` / `@staticmethod`
are tolerated by the engine.  Nothing is rewritten: the engine interprets these AST nodes directly.
"""
import ast
import hashlib
import importlib
import os
import sys

_CACHE = {}


def repo_root():
    return os.environ.get("XDIS_REPO", "/repo")


def module_file(modname):
    path = os.path.join(repo_root(), *modname.split("."))
    if os.path.isdir(path):
        return os.path.join(path, "__init__.py")
    return path + ".py"


def parse_module(modname):
    f = module_file(modname)
    key = (f, os.path.getmtime(f))
    if key not in _CACHE:
        with open(f, "rb") as fh:
            src = fh.read()
        tree = ast.parse(src, filename=f)
        _CACHE[key] = (tree, src.decode("utf-8").splitlines(True), f)
    return _CACHE[key]


class FuncSource(object):
    def __init__(self, modname, qualname, node, lines, path):
        self.modname = modname
        self.qualname = qualname
        self.node = node
        self.path = path
        self.lineno = node.lineno
        self.end_lineno = node.end_lineno
        seg = "".join(lines[node.lineno - 1: node.end_lineno])
        self.sha256 = hashlib.sha256(seg.encode("utf-8")).hexdigest()
        self.text = seg

    def describe(self):
        return {"function": "%s:%s" % (self.modname, self.qualname), "path": self.path,
                "lines": [self.lineno, self.end_lineno], "sha256": self.sha256}


def find_function(modname, qualname):
    tree, lines, path = parse_module(modname)
    node = tree
    for part in [p for p in qualname.split(".") if p != "<locals>"]:
        found = None
        for child in ast.iter_child_nodes(node) if not isinstance(node, ast.Module) else node.body:
            if isinstance(child, (ast.FunctionDef, ast.AsyncFunctionDef, ast.ClassDef)) and child.name == part:
                found = child
        if found is None:
            # search inside if/try blocks at this level (e.g. `if PYTHON3: def long(...)`)
            for child in ast.walk(node):
                if isinstance(child, (ast.FunctionDef, ast.ClassDef)) and child.name == part:
                    found = child
                    break
        if found is None:
            raise KeyError("%s:%s not found in %s" % (modname, qualname, path))
        node = found
    return FuncSource(modname, qualname, node, lines, path)


def import_repo_module(modname):
    root = repo_root()
    if root not in sys.path:
        sys.path.insert(0, root)
    return importlib.import_module(modname)


def loops_of(funcnode):
    """Loops of a function in source order, not descending into nested defs/lambdas/classes."""
    out = []

    def visit(n):
        for c in ast.iter_child_nodes(n):
            if isinstance(c, (ast.FunctionDef, ast.AsyncFunctionDef, ast.Lambda, ast.ClassDef)):
                continue
            if isinstance(c, (ast.While, ast.For)):
                out.append(c)
            visit(c)
    visit(funcnode)
    out.sort(key=lambda n: (n.lineno, n.col_offset))
    return out


def loop_fingerprint(loop):
    if isinstance(loop, ast.While):
        return "while " + ast.unparse(loop.test)
    return "for %s in %s" % (ast.unparse(loop.target), ast.unparse(loop.iter))


def assigned_names(nodes):
    """Names syntactically (re)bound inside the given statements (not descending into nested defs)."""
    names = set()

    def tgt(t):
        if isinstance(t, ast.Name):
            names.add(t.id)
        elif isinstance(t, (ast.Tuple, ast.List)):
            for e in t.elts:
                tgt(e)
        elif isinstance(t, ast.Starred):
            tgt(t.value)

    def visit(n):
        if isinstance(n, (ast.FunctionDef, ast.AsyncFunctionDef, ast.ClassDef)):
            names.add(n.name)
            return
        if isinstance(n, ast.Lambda):
            return
        if isinstance(n, ast.Assign):
            for t in n.targets:
                tgt(t)
        elif isinstance(n, (ast.AugAssign, ast.AnnAssign)):
            tgt(n.target)
        elif isinstance(n, ast.For):
            tgt(n.target)
        elif isinstance(n, ast.NamedExpr):
            tgt(n.target)
        elif isinstance(n, ast.ExceptHandler) and n.name:
            names.add(n.name)
        elif isinstance(n, (ast.With,)):
            for it in n.items:
                if it.optional_vars is not None:
                    tgt(it.optional_vars)
        for c in ast.iter_child_nodes(n):
            visit(c)
    for n in nodes:
        visit(n)
    return names


def names_used(nodes):
    out = set()
    for n in nodes:
        for c in ast.walk(n):
            if isinstance(c, ast.Name):
                out.add(c.id)
    return out


def normalize_fingerprint(fp):
    try:
        node = ast.parse(fp + ":\n    pass").body[0]
        return loop_fingerprint(node)
    except SyntaxError:
        return fp
