"""Run verification units (one function contract x one concrete configuration) in worker processes,
replay counter-models natively on the real code, and aggregate results."""
import contextlib
import importlib
import io
import json
import os
import sys
import time
import traceback
import z3

from . import discharge, extract, sym, types as T
from .engine import HIter, HSetList, HMap, HFile, SObj, HSymList, HList, Opaque, call_by_names, conjuncts
from .sym import SInt, SBool, SOpt, SSeq, SEnum
from .interp import Interp

VERIF = os.path.dirname(os.path.dirname(os.path.abspath(__file__)))


# ------------------------------------------------------------------------------------------------
# model -> concrete python inputs

def _mint(model, e, default=0):
    v = model.eval(e, model_completion=True)
    try:
        return v.as_long()
    except Exception:
        return default


def _mbool(model, e):
    v = model.eval(e, model_completion=True)
    return z3.is_true(v)


def concretize(v, model, maxlen=4096):
    if isinstance(v, SInt):
        return _mint(model, v.e)
    if isinstance(v, SBool):
        return _mbool(model, v.e)
    if isinstance(v, SOpt):
        return None if _mbool(model, v.isnone) else _mint(model, v.val)
    if isinstance(v, SEnum):
        return v.table[_mint(model, v.idx)]
    if isinstance(v, SSeq):
        n = v.length if isinstance(v.length, int) else _mint(model, v.len_e())
        if n > maxlen:
            raise ValueError("counter-model sequence too long (%d)" % n)
        items = [concretize(v.get(z3.IntVal(i)), model) for i in range(n)]
        if v.kind == "bytes":
            return bytes([x & 255 for x in items])
        if v.kind == "tuple":
            return tuple(items)
        return items
    if isinstance(v, tuple):
        return tuple(concretize(x, model) for x in v)
    if isinstance(v, HList):
        return [concretize(x, model) for x in v.items]
    if isinstance(v, HIter):
        data = concretize(v.seq, model)
        return ("__iter__", data, concretize(v.pos, model))
    if isinstance(v, HFile):
        return ("__file__", concretize(v.seq, model), concretize(v.pos, model))
    if type(v).__name__ == "ConstFn":
        return ("__constfn__", concretize(v.value, model))
    if isinstance(v, SObj):
        return ("__obj__", dict((k, concretize(x, model)) for k, x in v.__dict__["_f"].items()))
    if isinstance(v, HSymList):
        return concretize(v.as_seq(), model)
    if type(v).__name__ == "HSink":
        return ("__sink__",)
    if isinstance(v, HMap):
        out = {}
        for k in range(0, 80):
            if _mbool(model, z3.Select(v.has, z3.IntVal(k))):
                out[k] = _mint(model, z3.Select(v.val, z3.IntVal(k)))
        return out
    if isinstance(v, HSetList):
        return [k for k in range(-2, 300) if _mbool(model, z3.Select(v.sset.e, z3.IntVal(k)))]
    return v


def jsonable(v):
    if isinstance(v, bytes):
        return {"__bytes__": v.hex()}
    if isinstance(v, tuple):
        return {"__tuple__": [jsonable(x) for x in v]}
    if isinstance(v, list):
        return [jsonable(x) for x in v]
    if isinstance(v, dict):
        return {"__dict__": [[jsonable(k), jsonable(x)] for k, x in v.items()]}
    if isinstance(v, (int, str, bool, float)) or v is None:
        return v
    return {"__repr__": repr(v)[:200]}


def unjson(v):
    if isinstance(v, dict):
        if "__bytes__" in v:
            return bytes.fromhex(v["__bytes__"])
        if "__tuple__" in v:
            return tuple(unjson(x) for x in v["__tuple__"])
        if "__dict__" in v:
            return dict((unjson(k), unjson(x)) for k, x in v["__dict__"])
        if "__repr__" in v:
            return v["__repr__"]
    if isinstance(v, list):
        return [unjson(x) for x in v]
    return v


# ------------------------------------------------------------------------------------------------
# native replay of one counterexample against the real function + the contract evaluated natively

class _Rec(object):
    def __init__(self, d):
        self.__dict__.update(d)


def nativize(v):
    """concrete replay value -> python object handed to the real function"""
    if isinstance(v, tuple) and len(v) == 3 and v[0] == "__iter__":
        it = iter(v[1])
        for _ in range(v[2]):
            next(it)
        return it
    if isinstance(v, tuple) and len(v) == 2 and v[0] == "__obj__":
        return _Rec(dict((k, nativize(x)) for k, x in v[1].items()))
    if isinstance(v, tuple) and len(v) == 3 and v[0] == "__file__":
        f = io.BytesIO(v[1])
        f.seek(v[2])
        return f
    if isinstance(v, tuple) and len(v) == 2 and v[0] == "__constfn__":
        rows = [tuple(r) for r in v[1]]
        return lambda: iter(list(rows))
    if isinstance(v, tuple):
        return tuple(nativize(x) for x in v)
    if isinstance(v, list):
        return [nativize(x) for x in v]
    return v


def contract_view(v):
    """concrete replay value -> object the contract lambdas see natively (old() views)"""
    if isinstance(v, tuple) and len(v) == 3 and v[0] in ("__iter__", "__file__"):
        return _Rec({"data": v[1], "pos": v[2], "seq": v[1]})
    if isinstance(v, tuple) and len(v) == 2 and v[0] == "__obj__":
        return _Rec(dict((k, contract_view(x)) for k, x in v[1].items()))
    if isinstance(v, tuple) and len(v) == 2 and v[0] == "__constfn__":
        return [tuple(r) for r in v[1]]
    return v


def native_replay(contract, config, inputs):
    """Run the real function on concrete inputs and evaluate the contract natively.
    returns dict(outcome=..., violated=[labels], result=..., exception=...)"""
    if getattr(contract, "native_check", None) is not None:
        T.NATIVE = True
        try:
            r = contract.native_check(dict(config or {}), dict((k, nativize(v)) for k, v in inputs.items()))
        finally:
            T.NATIVE = False
        if r is None:
            return {"violated": [], "result": None, "exception": None, "requires_ok": False}
        return {"violated": list(r.get("violated", [])), "result": r.get("result", "ran"), "exception": r.get("exception"), "requires_ok": True}
    mod = extract.import_repo_module(contract.modname)
    fn = mod
    for part in contract.qualname.split("."):
        fn = getattr(fn, part)
    args = dict((k, v) for k, v in (config or {}).items() if not k.startswith("_"))
    views = dict(config or {})
    for k, v in inputs.items():
        args[k] = nativize(v)
        views[k] = contract_view(v)
    T.NATIVE = True
    out = {"violated": [], "result": None, "exception": None, "requires_ok": True}
    stub = _Rec({"entry_cfg": dict(config or {}), "native": True, "native_inputs": inputs})
    views["_engine"] = stub
    patches = []
    for ext in getattr(contract, "externals", []) or []:
        try:
            emod = importlib.import_module(ext.modname)
            orig = getattr(emod, ext.qualname)
        except Exception:
            continue

        def wrapper(*a, _ext=ext, _orig=orig, **kw):
            vals = dict(zip(_ext.external_args, a))
            vals.update(kw)
            for k2, v2 in list(vals.items()):
                if hasattr(v2, "tell") and hasattr(v2, "getvalue"):
                    vals[k2] = _Rec({"data": v2.getvalue(), "pos": v2.tell(), "seq": v2.getvalue()})
            vals["_engine"] = stub
            try:
                ok = bool(call_by_names(_ext.requires, vals)) if _ext.requires is not None else True
            except Exception as e:
                ok = True
            if not ok:
                out["violated"].append("pre-of-%s" % _ext.qualname)
            return getattr(_ext, "native_result", None)
        patches.append((emod, ext.qualname, orig))
        setattr(emod, ext.qualname, wrapper)
    try:
        if contract.requires is not None:
            ok = call_by_names(contract.requires, views)
            if isinstance(ok, (list, tuple)):
                ok = all(x[1] if isinstance(x, tuple) else x for x in ok)
            out["requires_ok"] = bool(ok)
            if not ok:
                return out
        buf = io.StringIO()
        exc = None
        result = None
        try:
            with contextlib.redirect_stdout(buf):
                result = fn(**args)
                if contract.kind == "generator":
                    result = list(result)
        except Exception as e:   # the program under test raised
            exc = e
        out["stdout"] = buf.getvalue()[:200]
        avail = dict(views)
        for k, v in views.items():
            avail["_old_" + k] = v
        # post-state views for iterators: position after the call
        for k, v in inputs.items():
            if isinstance(v, tuple) and len(v) == 3 and v[0] == "__iter__":
                rest = len(list(args[k]))
                avail[k] = _Rec({"data": v[1], "pos": len(v[1]) - rest, "seq": v[1]})
        if exc is not None:
            out["exception"] = "%s: %s" % (type(exc).__name__, exc)
            allowed = False
            for et, cond in contract.raises.items():
                if isinstance(exc, et):
                    if cond is True or bool(call_by_names(cond, avail)):
                        allowed = True
            if not allowed:
                out["violated"].append("raises:" + type(exc).__name__)
            return out
        out["result"] = repr(result)[:300]
        for et, cond in contract.raises.items():
            if cond is not True and bool(call_by_names(cond, avail)):
                out["violated"].append("expected-%s-not-raised" % et.__name__)
        if contract.native_yields is not None:
            want = call_by_names(contract.native_yields, avail)
            if [tuple(x) if isinstance(x, (list, tuple)) else x for x in result] != [tuple(x) if isinstance(x, (list, tuple)) else x for x in want]:
                out["violated"].append("yields(%r != spec %r)" % (result[:6], want[:6]))
        if contract.native_post is not None:
            a3 = dict(avail); a3["result"] = result
            for lbl, ok in _native_conj(call_by_names(contract.native_post, a3)):
                if not ok:
                    out["violated"].append("post/" + lbl)
        if contract.kind == "generator":
            avail["_ny"] = len(result)
            if contract.yield_count is not None:
                cnt = call_by_names(contract.yield_count, avail)
                if cnt != len(result):
                    out["violated"].append("yield-count(%r != %r)" % (len(result), cnt))
            for k, v in enumerate(result):
                a2 = dict(avail)
                a2["_k"] = k
                a2["value"] = v
                if contract.yield_at is not None and k < (cnt if contract.yield_count is not None else len(result)):
                    want = call_by_names(contract.yield_at, a2)
                    if not _native_eq(v, want):
                        out["violated"].append("yield-value#%d(%r != %r)" % (k, v, want))
                        break
                if contract.yield_post is not None:
                    for lbl, ok in _native_conj(call_by_names(contract.yield_post, a2)):
                        if not ok:
                            out["violated"].append("yield#%d/%s" % (k, lbl))
                            break
        avail["result"] = result
        if contract.ensures is not None:
            for lbl, ok in _native_conj(call_by_names(contract.ensures, avail)):
                if not ok:
                    out["violated"].append("post/" + lbl)
        return out
    finally:
        T.NATIVE = False
        for emod, nm, orig in patches:
            setattr(emod, nm, orig)


def _native_eq(a, b):
    if isinstance(a, tuple) and isinstance(b, tuple):
        return len(a) == len(b) and all(_native_eq(x, y) for x, y in zip(a, b))
    return a == b


def _native_conj(v, label=""):
    if isinstance(v, (list, tuple)):
        out = []
        for i, x in enumerate(v):
            if isinstance(x, tuple) and len(x) == 2 and isinstance(x[0], str):
                out += _native_conj(x[1], x[0])
            else:
                out += _native_conj(x, "%s%d" % (label, i))
        return out
    return [(label, bool(v))]


# ------------------------------------------------------------------------------------------------
# one unit

def small_model(ob, entry_args, timeout_ms=5000):
    """try to get a counter-model with short sequences"""
    lens = []
    for v in entry_args.values():
        if isinstance(v, SSeq) and not isinstance(v.length, int):
            lens.append(v.len_e())
        if isinstance(v, HIter) and not isinstance(v.seq.length, int):
            lens.append(v.seq.len_e())
        if isinstance(v, SObj):
            for x in v.__dict__["_f"].values():
                if isinstance(x, SSeq) and not isinstance(x.length, int):
                    lens.append(x.len_e())
    for bound in (6, 24):
        s = z3.Solver()
        s.set("timeout", min(timeout_ms, 2500))
        for h in ob.hyps:
            s.add(h)
        s.add(z3.Not(ob.goal))
        for l in lens:
            s.add(l <= bound)
        if s.check() == z3.sat:
            return s.model()
    return ob.model


def run_unit(modname, target, label, timeout_ms=10000, replay_dir=None, prop="C??"):
    """returns a JSON-able dict describing the verification of one (function, config)"""
    t0 = time.time()
    res = {"target": target, "config": label, "obligations": [], "undecided": [], "error": None,
           "assumptions": [], "violations": [], "paths": 0, "covers": 0}
    try:
        cmod = importlib.import_module(modname)
        contract = [c for c in cmod.CONTRACTS if c.name == target][0]
        configs = cmod.configs_for(contract) if hasattr(cmod, "configs_for") else {"": {}}
        config = configs[label]
        call_contracts = {}
        for c in getattr(cmod, "ALL_CONTRACTS", cmod.CONTRACTS):
            if c.target == contract.target and c.kind != "function":
                continue        # a generator under verification never calls itself
            call_contracts.setdefault(c.target, []).append(c)
        eng = Interp(contracts=call_contracts)
        # wall-clock budget per unit: exploration stops (undecided), discharge and replay are skipped for what is left
        budget = float(os.environ.get("PYVC_UNIT_BUDGET_S", "300" if timeout_ms <= 10000 else "3600"))
        eng.deadline = t0 + budget
        fs = eng.verify(contract, config, label)
        res["function"] = fs.describe()
        # induction steps of the lemmas attached to the spec functions this unit used
        from . import spec as _spec
        from .engine import Obligation
        for nm, hyps, goal in _spec.lemma_obligations():
            eng.obligations.append(Obligation("lemma-induction/%s" % nm, "lemma", hyps, goal, 0, "induction step of the spec lemma"))
        discharge.discharge_all(eng.obligations, timeout_ms, deadline=eng.deadline)
        seen = set()
        for ob in eng.obligations:
            try:
                key = (ob.name, discharge.obligation_hash(ob))
            except Exception:
                key = (ob.name, id(ob))
            if key in seen:
                continue
            seen.add(key)
            rec = {"name": "%s/%s/%s" % (prop, target.split(":")[1] + ("[" + label + "]" if label else ""), ob.name),
                   "status": ob.status, "backend": ob.backend, "time_s": round(ob.time_s, 4), "line": ob.lineno}
            if ob.detail:
                rec["detail"] = ob.detail
            if ob.status == "refuted":
                nrep = getattr(eng, "_replayed", 0)
                if nrep >= 3 and getattr(eng, "_confirmed", 0) >= 1:
                    rec["confirmed"] = False
                    rec["replay_error"] = "replay skipped: this unit already has %d replayed counterexample(s)" % eng._confirmed
                else:
                    eng._replayed = nrep + 1
                    rec.update(_replay_refuted(eng, contract, config, ob, label, replay_dir, prop))
                    if rec.get("confirmed"):
                        eng._confirmed = getattr(eng, "_confirmed", 0) + 1
            elif ob.status == "unknown":
                # undecided by the solvers: bounded native search for a failing input (never maps
                # 'unknown' itself to a violation)
                if not hasattr(eng, "_search_cache"):
                    eng._search_cache = native_search(contract, config)
                found, tried = eng._search_cache
                rec["native_search_tried"] = tried
                if found is not None:
                    inputs, rp = found
                    rec["status"] = "refuted"
                    rec["confirmed"] = True
                    rec["inputs"] = jsonable(inputs)
                    rec["replay"] = {"violated": rp["violated"], "result": rp.get("result"), "exception": rp.get("exception"),
                                     "requires_ok": rp.get("requires_ok"),
                                     "found_by": "bounded native search after the solvers answered unknown on this obligation"}
            res["obligations"].append(rec)
        if eng.undecided:
            # constructs outside the verifier's subset: bounded native search so that a behavioural change
            # hidden behind them is still found (labelled bounded; no finding -> the unit stays undecided)
            found, tried = native_search(contract, config, budget_s=25.0)
            res["native_search_after_undecided"] = tried
            if found is not None:
                inputs, rp = found
                res["obligations"].append({"name": "%s/%s/bounded-native-search" % (prop, target.split(":")[1] + ("[" + label + "]" if label else "")),
                                           "status": "refuted", "backend": "bounded native search", "time_s": 0, "line": 0, "confirmed": True,
                                           "inputs": jsonable(inputs),
                                           "replay": {"violated": rp["violated"], "result": rp.get("result"), "exception": rp.get("exception"),
                                                      "found_by": "bounded native search: the unit contains constructs outside the verifier's subset (%s)" % eng.undecided[0][1][:120]}})
        if eng.covers == 0 and not eng.undecided:
            # the solver could not exhibit a reachable exit (quantified precondition): look for native witnesses
            res["covers_native"] = precondition_witnesses(contract, config)
            eng.covers = res["covers_native"]
        res["undecided"] = ["%s: %s" % u for u in eng.undecided]
        res["assumptions"] = sorted(eng.assumed)
        res["inlined"] = sorted(eng.inlined)
        res["paths"] = eng.paths
        res["covers"] = eng.covers
        res["feas_checks"] = eng.stats["feas_checks"]
    except Exception as e:
        res["error"] = "%s: %s\n%s" % (type(e).__name__, e, traceback.format_exc()[-1500:])
    res["wall_s"] = round(time.time() - t0, 3)
    return res


class _Timeout(BaseException):
    pass


def _alarm(signum, frame):
    raise _Timeout()


def timed_replay(contract, config, inputs, seconds=3):
    import signal
    old = signal.signal(signal.SIGALRM, _alarm)
    signal.alarm(seconds)
    try:
        return native_replay(contract, config, inputs)
    except _Timeout:
        return {"violated": ["does-not-terminate-within-%ds" % seconds], "requires_ok": True, "result": None, "exception": None}
    finally:
        signal.alarm(0)
        signal.signal(signal.SIGALRM, old)
        T.NATIVE = False


def native_search(contract, config, budget_s=20.0, seed=0, n=400):
    """bounded native search for a failing input (used when a counter-model does not replay because
    it is a counterexample to an inductive step, not to the function): labelled bounded."""
    import random
    rng = random.Random(seed)
    cols = {}
    for k, m in contract.params.items():
        if k in (config or {}):
            continue
        ex = m.examples(rng, n) if hasattr(m, "examples") else []
        gen = getattr(contract, "examples", None)
        if gen is not None and k in gen:
            ex = list(gen[k](config or {}, rng, n)) + list(ex)
        if not ex:
            return None, 0
        cols[k] = ex
    t0 = time.time()
    tried = 0
    keys = sorted(cols)
    # first a small exhaustive product over the leading examples, then random combinations
    import itertools
    heads = [cols[k][:12] if len(keys) > 1 else cols[k] for k in keys]
    rnd = (tuple(rng.choice(cols[k]) for k in keys) for _ in range(400000))
    combos = itertools.chain(itertools.product(*heads), rnd) if len(keys) <= 2 else rnd
    for vals in combos:
        if time.time() - t0 > budget_s:
            break
        inputs = dict(zip(keys, vals))
        tried += 1
        try:
            rp = timed_replay(contract, config, inputs)
        except Exception as e:
            continue
        if rp.get("requires_ok", True) and rp["violated"]:
            return (inputs, rp), tried
    return None, tried


def precondition_witnesses(contract, config, n=150, seed=1):
    """number of example inputs that satisfy the precondition natively and run to completion (vacuity guard
    when the solver answers 'unknown' on the satisfiability of a quantified precondition)"""
    import random
    rng = random.Random(seed)
    cols = {}
    for k, m in contract.params.items():
        if k in (config or {}):
            continue
        ex = m.examples(rng, 60) if hasattr(m, "examples") else []
        if not ex:
            return 0
        cols[k] = ex
    hits = 0
    keys = sorted(cols)
    for _ in range(n):
        inputs = dict((k, rng.choice(cols[k])) for k in keys)
        try:
            rp = timed_replay(contract, config, inputs, 2)
        except Exception:
            continue
        if rp.get("requires_ok") and (rp.get("result") is not None or rp.get("exception") is not None):
            hits += 1
            if hits >= 3:
                break
    return hits


def _replay_refuted(eng, contract, config, ob, label, replay_dir, prop):
    out = {}
    if getattr(contract, "no_native_replay", False):
        out["confirmed"] = False
        out["replay_error"] = "this contract is over abstract tokens (plumbing proof): the solver's refutation has no concrete input to replay"
        try:
            out["solver_model"] = str(ob.model)[:800]
        except Exception:
            pass
        return out
    try:
        model = small_model(ob, eng.entry_args)
        out["solver_model"] = str(model)[:1500]
        inputs = dict((k, concretize(v, model)) for k, v in eng.entry_args.items() if k not in (config or {}))
        out["inputs"] = jsonable(inputs)
        rp = timed_replay(contract, config, inputs)
        out["replay"] = {"violated": rp["violated"], "result": rp.get("result"), "exception": rp.get("exception"),
                         "requires_ok": rp.get("requires_ok")}
        out["confirmed"] = bool(rp["violated"]) and rp.get("requires_ok", True)
    except Exception as e:
        out["replay_error"] = "%s: %s" % (type(e).__name__, e)
        out["confirmed"] = False
    if not out["confirmed"]:
        if not hasattr(eng, "_search_cache"):
            eng._search_cache = native_search(contract, config)
        found, tried = eng._search_cache
        out["native_search_tried"] = tried
        if found is not None:
            inputs, rp = found
            out["inputs"] = jsonable(inputs)
            out["replay"] = {"violated": rp["violated"], "result": rp.get("result"), "exception": rp.get("exception"),
                             "requires_ok": rp.get("requires_ok"), "found_by": "bounded native search after the solver's counter-model (a counterexample to an inductive step) did not replay"}
            out["confirmed"] = True
    return out
