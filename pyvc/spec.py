"""Spec functions: pure Python functions that (a) run natively (replay, adequacy checks) and
(b) are translated from their own AST into z3 recursive functions (`define-fun-rec`), so that the
*same text* is the oracle in VCs and in native replay.

Subset: parameters/returns annotated with int, bool, Bytes, IntList, PairList or tuples of int/bool;
body = assignments (names / tuple targets), if/elif/else, return; expressions = arithmetic,
comparisons, and/or/not, conditional expressions, constant-mask bit operations, len(), indexing of
Bytes/lists, calls of other spec functions (incl. recursion), tuples.
"""
import ast
import inspect
import textwrap
import z3
from . import sym
from .sym import SInt, SBool, SSeq, Unsupported, _ie, _be


class Bytes(object):
    """annotation: immutable byte sequence (array Int->Int + length)"""


class IntList(object):
    """annotation: list of ints"""


class PairList(object):
    """annotation: list of (int, int)"""


class IntSet(object):
    """annotation: set of ints (array Int->Bool)"""


class IntSeq(object):
    """annotation: finite list of ints (z3 Seq Int); natively a python list"""


_REGISTRY = {}
_TUPLE_SORTS = {}
_BY_DECL = {}
_NATIVE_MEMO = {}
_MISS = object()
_INST_CACHE = {}
_INST_KEEP = []     # keeps the applications alive so that their ids are not reused
UNFOLD_DEPTH = 2


_APPS_CACHE = {}      # top-level expr id -> (expr kept alive, [ground spec applications])


def _apps_of(e):
    k = e.get_id()
    hit = _APPS_CACHE.get(k)
    if hit is not None:
        return hit[1]
    seen = set()
    out = []
    stack = [(e, False)]
    while stack:
        x, under_q = stack.pop()
        xid = x.get_id()
        if xid in seen:
            continue
        seen.add(xid)
        if z3.is_quantifier(x):
            stack.append((x.body(), True))
            continue
        if z3.is_app(x):
            d = x.decl()
            if d.kind() == z3.Z3_OP_UNINTERPRETED and x.num_args() > 0 and d.name() in _BY_DECL:
                if not (under_q and _has_bound_var(x)):
                    out.append(x)
            for c in x.children():
                stack.append((c, under_q))
    _APPS_CACHE[k] = (e, out)
    return out


def spec_apps(exprs):
    """all ground applications of spec functions occurring in the given z3 expressions"""
    seen = set()
    out = []
    for e in exprs:
        for a in _apps_of(e):
            if a.get_id() not in seen:
                seen.add(a.get_id())
                out.append(a)
    return out


def _has_bound_var(e):
    stack = [e]
    seen = set()
    while stack:
        x = stack.pop()
        if x.get_id() in seen:
            continue
        seen.add(x.get_id())
        if z3.is_var(x):
            return True
        stack.extend(x.children())
    return False


def unfold_closure(exprs, depth=None):
    """definitional instances for every spec application in exprs, and for the applications those
    instances introduce, up to `depth` rounds"""
    depth = UNFOLD_DEPTH if depth is None else depth
    done = set()
    out = []
    frontier = list(exprs)
    for _ in range(depth):
        new = []
        for app in spec_apps(frontier):
            if app.get_id() in done:
                continue
            done.add(app.get_id())
            fn = _BY_DECL[app.decl().name()]
            inst = _INST_CACHE.get(app.get_id())
            if inst is None:
                inst = fn.instance(app.children())
                li = fn.lemma_instance(app)
                if li is not None:
                    inst = z3.And(inst, li)
                _INST_CACHE[app.get_id()] = inst
                _INST_KEEP.append(app)
            out.append(inst)
            new.append(inst)
        if not new:
            break
        frontier = new
    # applications left un-unfolded at the depth limit still get their lemma facts
    for app in spec_apps(frontier):
        if app.get_id() in done:
            continue
        done.add(app.get_id())
        li = _BY_DECL[app.decl().name()].lemma_instance(app)
        if li is not None:
            out.append(li)
    return out



def _tuple_sort(kinds):
    key = tuple(kinds)
    if key not in _TUPLE_SORTS:
        nm = "T_" + "".join(k[0] for k in key)
        _TUPLE_SORTS[key] = z3.TupleSort(nm, [z3.IntSort() if k == "int" else z3.BoolSort() for k in key])
    return _TUPLE_SORTS[key]


def _ann_kind(a):
    """annotation AST -> kind descriptor"""
    if isinstance(a, ast.Name):
        if a.id in ("int", "bool", "Bytes", "IntList", "PairList", "IntSet", "IntSeq"):
            return a.id
    if isinstance(a, ast.Tuple):
        return tuple(_ann_kind(e) for e in a.elts)
    if isinstance(a, ast.Constant) and a.value is None:
        return "none"
    raise Unsupported("spec annotation not understood: %s" % ast.dump(a))


class SpecFn(object):
    def __init__(self, fn, lemma=None):
        self.fn = fn
        self.lemma = lemma          # lambda result, *params -> SBool : a property of every application,
                                    # proved once by induction over the definition (lemma_obligation)
        self.name = fn.__name__
        src = textwrap.dedent(inspect.getsource(fn))
        mod = ast.parse(src)
        self.node = mod.body[0]
        self.globals = fn.__globals__
        self.params = []
        for a in self.node.args.args:
            if a.annotation is None:
                raise Unsupported("spec %s: parameter %s lacks an annotation" % (self.name, a.arg))
            self.params.append((a.arg, _ann_kind(a.annotation)))
        if self.node.returns is None:
            raise Unsupported("spec %s lacks a return annotation" % self.name)
        self.ret = _ann_kind(self.node.returns)
        self._decl = None
        self._defined = False
        _REGISTRY[self.name] = self

    # -- z3 declaration ------------------------------------------------------
    def _sorts(self):
        out = []
        for _, k in self.params:
            if k == "int":
                out.append(z3.IntSort())
            elif k == "bool":
                out.append(z3.BoolSort())
            elif k in ("Bytes", "IntList"):
                out += [z3.ArraySort(z3.IntSort(), z3.IntSort()), z3.IntSort()]
            elif k == "PairList":
                out += [z3.ArraySort(z3.IntSort(), z3.IntSort()), z3.ArraySort(z3.IntSort(), z3.IntSort()), z3.IntSort()]
            elif k == "IntSet":
                out.append(z3.ArraySort(z3.IntSort(), z3.BoolSort()))
            elif k == "IntSeq":
                out.append(z3.SeqSort(z3.IntSort()))
            else:
                raise Unsupported("param kind %r" % (k,))
        return out

    def _ret_sort(self):
        if self.ret == "int":
            return z3.IntSort()
        if self.ret == "bool":
            return z3.BoolSort()
        if self.ret == "IntSet":
            return z3.ArraySort(z3.IntSort(), z3.BoolSort())
        if self.ret == "IntSeq":
            return z3.SeqSort(z3.IntSort())
        if isinstance(self.ret, tuple):
            return _tuple_sort(self.ret)[0]
        raise Unsupported("return kind %r" % (self.ret,))

    def decl(self):
        """Spec functions are *uninterpreted* z3 functions; their definitions enter a query as
        explicit unfolding instances (see unfold_closure), which keeps every query in a decidable
        quantifier-free fragment.  (Sound: any instance of the defining equation is true.)"""
        if self._decl is None:
            self._decl = z3.Function("S." + self.name, *(self._sorts() + [self._ret_sort()]))
            _BY_DECL[self._decl.name()] = self
        return self._decl

    def lemma_instance(self, app):
        if self.lemma is None:
            return None
        env = self._env(app.children())
        vals = [env[nm] for nm, _ in self.params]
        return _be(self.lemma(self._unpack(app), *vals))

    def lemma_obligation(self):
        """(hyps, goal) of the induction step: the lemma holds for the body if it holds for every
        spec application inside the body (sound for terminating definitions)"""
        zparams = []
        for (nm, k), srt in zip(self.params, [None] * len(self.params)):
            pass
        sorts = self._sorts()
        zargs = [z3.Const("ind!%s!%d" % (self.name, i), srt) for i, srt in enumerate(sorts)]
        env = self._env(zargs)
        saved = sym.drain_facts()
        body = _Translator(self).block(self.node.body, env)
        facts = sym.drain_facts()
        sym.PENDING_FACTS.extend(saved)
        packed = self._pack(body)
        vals = [env[nm] for nm, _ in self.params]
        goal = _be(self.lemma(self._unpack(packed), *vals))
        hyps = list(facts)
        for (nm, k) in self.params:
            if k in ("Bytes", "IntList", "PairList"):
                hyps.append(env[nm].len_e() >= 0)
        for app in spec_apps([packed]):
            f2 = _BY_DECL[app.decl().name()]
            li = f2.lemma_instance(app)
            if li is not None:
                hyps.append(li)
        return hyps, goal

    def _env(self, zargs):
        env = {}
        it = iter(zargs)
        for (nm, k) in self.params:
            if k == "int":
                x = next(it)
                env[nm] = x.as_long() if z3.is_int_value(x) else SInt(x)     # numerals stay concrete
            elif k == "bool":
                x = next(it)
                env[nm] = True if z3.is_true(x) else (False if z3.is_false(x) else SBool(x))
            elif k in ("Bytes", "IntList"):
                a = next(it); n = next(it)
                env[nm] = SSeq(n, sym.bytes_get(a) if k == "Bytes" else (lambda a: lambda i: SInt(z3.Select(a, i)))(a), kind="bytes" if k == "Bytes" else "list", base=(nm, a, n))
            elif k == "PairList":
                a = next(it); b = next(it); n = next(it)
                env[nm] = SSeq(n, (lambda a, b: lambda i: (SInt(z3.Select(a, i)), SInt(z3.Select(b, i))))(a, b), kind="list", base=(nm, a, b, n))
            elif k == "IntSet":
                env[nm] = SSet(next(it))
            elif k == "IntSeq":
                env[nm] = sym.ZSeq(next(it))
        return env

    def instance(self, zargs):
        """the defining equation instantiated at the given z3 argument terms"""
        env = self._env(zargs)
        saved = sym.drain_facts()
        body = _Translator(self).block(self.node.body, env)
        facts = sym.drain_facts()
        sym.PENDING_FACTS.extend(saved)
        eq = self.decl()(*zargs) == self._pack(body)
        return z3.And(eq, *facts) if facts else eq

    def _pack(self, v):
        if self.ret == "int":
            return _ie(v)
        if self.ret == "bool":
            return _be(v)
        if self.ret == "IntSet":
            return SSet.of(v).e
        if self.ret == "IntSeq":
            return sym.ZSeq.of(v).e
        sort, mk, acc = _tuple_sort(self.ret)
        if not (isinstance(v, tuple) and len(v) == len(self.ret)):
            raise Unsupported("spec %s: return value shape mismatch" % self.name)
        return mk(*[_ie(x) if k == "int" else _be(x) for x, k in zip(v, self.ret)])

    def _unpack(self, e):
        if self.ret == "int":
            return SInt(e)
        if self.ret == "bool":
            return SBool(e)
        if self.ret == "IntSet":
            return SSet(e)
        if self.ret == "IntSeq":
            return sym.ZSeq(e)
        sort, mk, acc = _tuple_sort(self.ret)
        return tuple(SInt(a(e)) if k == "int" else SBool(a(e)) for a, k in zip(acc, self.ret))

    def _zargs(self, args):
        out = []
        for (nm, k), v in zip(self.params, args):
            if k == "int":
                out.append(_ie(v))
            elif k == "bool":
                out.append(_be(v))
            elif k in ("Bytes", "IntList"):
                out += list(seq_arrays(v, 1))
            elif k == "PairList":
                out += list(seq_arrays(v, 2))
            elif k == "IntSet":
                out.append(v.e if isinstance(v, SSet) else set_const(v))
            elif k == "IntSeq":
                out.append(sym.ZSeq.of(v).e)
        return out

    def __call__(self, *args):
        if len(args) != len(self.params):
            raise TypeError("spec %s takes %d arguments" % (self.name, len(self.params)))
        if not any(isinstance(a, sym.SVal) or (isinstance(a, tuple) and len(a) < 16 and sym.is_sym(a)) for a in args):
            # native evaluation (replay / adequacy), memoised: the recursive definitions are indexed by k
            try:
                key = (self.name,) + tuple(tuple(a) if isinstance(a, list) else a for a in args)
                hit = _NATIVE_MEMO.get(key, _MISS)
            except TypeError:
                return self.fn(*args)
            if hit is not _MISS:
                return hit
            r = self.fn(*args)
            if len(_NATIVE_MEMO) > 200000:
                _NATIVE_MEMO.clear()
            _NATIVE_MEMO[key] = r
            return r
        self.symbolic_calls = getattr(self, "symbolic_calls", 0) + 1
        return self._unpack(self.decl()(*self._zargs(args)))


def spec(fn=None, lemma=None):
    if fn is None:
        return lambda f: SpecFn(f, lemma)
    return SpecFn(fn, lemma)


SSet = sym.SSet


EMPTY_SET = None


def empty_set():
    return SSet(z3.K(z3.IntSort(), z3.BoolVal(False)))


def set_const(xs):
    return SSet.of(xs).e


_CONST_ARRAYS = {}


def seq_arrays(v, width):
    """(arrays..., len) z3 terms for a sequence value passed to a spec function."""
    if isinstance(v, SSeq):
        if v.base is None:
            raise Unsupported("derived sequence view passed to a spec function")
        return v.base[1:]
    # concrete sequence
    key = (width, repr(v))
    if key not in _CONST_ARRAYS:
        if width == 1:
            a = z3.K(z3.IntSort(), z3.IntVal(0))
            for i, x in enumerate(v):
                if int(x) != 0:
                    a = z3.Store(a, z3.IntVal(i), z3.IntVal(int(x)))
            _CONST_ARRAYS[key] = (a, z3.IntVal(len(v)))
        else:
            a = z3.K(z3.IntSort(), z3.IntVal(0)); b = z3.K(z3.IntSort(), z3.IntVal(0))
            for i, (x, y) in enumerate(v):
                a = z3.Store(a, z3.IntVal(i), z3.IntVal(int(x))); b = z3.Store(b, z3.IntVal(i), z3.IntVal(int(y)))
            _CONST_ARRAYS[key] = (a, b, z3.IntVal(len(v)))
    return _CONST_ARRAYS[key]


class _Translator(object):
    def __init__(self, fn):
        self.fn = fn

    def block(self, stmts, env):
        if not stmts:
            raise Unsupported("spec %s: control reaches the end without return" % self.fn.name)
        s, rest = stmts[0], stmts[1:]
        if isinstance(s, ast.Expr) and isinstance(s.value, ast.Constant):
            return self.block(rest, env)          # docstring
        if isinstance(s, ast.Return):
            return self.expr(s.value, env)
        if isinstance(s, ast.Assign):
            v = self.expr(s.value, env)
            env = dict(env)
            for t in s.targets:
                self.assign(t, v, env)
            return self.block(rest, env)
        if isinstance(s, ast.AugAssign):
            cur = self.expr(s.target, env)
            v = self.binop(s.op, cur, self.expr(s.value, env))
            env = dict(env)
            self.assign(s.target, v, env)
            return self.block(rest, env)
        if isinstance(s, ast.If):
            c = self.expr(s.test, env)
            if isinstance(c, bool):
                return self.block((s.body if c else s.orelse) + rest, env)
            if not sym.is_sym(c):
                return self.block((s.body if c else s.orelse) + rest, env)
            a = self.block(s.body + rest, env)
            b = self.block(s.orelse + rest, env)
            return sym.merge(_be(c), a, b)
        if isinstance(s, ast.Pass):
            return self.block(rest, env)
        raise Unsupported("spec %s: statement %s" % (self.fn.name, type(s).__name__))

    def assign(self, t, v, env):
        if isinstance(t, ast.Name):
            env[t.id] = v
        elif isinstance(t, ast.Tuple):
            if not isinstance(v, tuple) or len(v) != len(t.elts):
                raise Unsupported("spec tuple assignment shape")
            for e, x in zip(t.elts, v):
                self.assign(e, x, env)
        else:
            raise Unsupported("spec assignment target")

    def binop(self, op, a, b):
        import operator as o
        table = {ast.Add: o.add, ast.Sub: o.sub, ast.Mult: o.mul, ast.FloorDiv: o.floordiv, ast.Mod: o.mod,
                 ast.LShift: o.lshift, ast.RShift: o.rshift, ast.BitAnd: o.and_}
        if type(op) in table:
            return table[type(op)](a, b)
        if isinstance(op, ast.BitOr):
            raise Unsupported("'|' in a spec: write the sum explicitly")
        raise Unsupported("spec operator %s" % type(op).__name__)

    def expr(self, e, env):
        if isinstance(e, ast.Constant):
            return e.value
        if isinstance(e, ast.Name):
            if e.id in env:
                return env[e.id]
            if e.id in self.fn.globals:
                return self.fn.globals[e.id]
            import builtins
            return getattr(builtins, e.id)
        if isinstance(e, ast.Tuple):
            return tuple(self.expr(x, env) for x in e.elts)
        if isinstance(e, ast.List):
            return sym.ZSeq.of([self.expr(x, env) for x in e.elts])
        if isinstance(e, ast.BinOp):
            return self.binop(e.op, self.expr(e.left, env), self.expr(e.right, env))
        if isinstance(e, ast.UnaryOp):
            v = self.expr(e.operand, env)
            if isinstance(e.op, ast.Not):
                return sym.Not(v) if sym.is_sym(v) else (not v)
            if isinstance(e.op, ast.USub):
                return -v
            raise Unsupported("spec unary op")
        if isinstance(e, ast.BoolOp):
            vals = [self.expr(x, env) for x in e.values]
            if not any(sym.is_sym(v) for v in vals):
                r = vals[0]
                for v in vals[1:]:
                    r = (r and v) if isinstance(e.op, ast.And) else (r or v)
                return r
            return sym.And(*vals) if isinstance(e.op, ast.And) else sym.Or(*vals)
        if isinstance(e, ast.Compare):
            left = self.expr(e.left, env)
            res = []
            for op, r in zip(e.ops, e.comparators):
                right = self.expr(r, env)
                res.append(self.compare(op, left, right))
                left = right
            return res[0] if len(res) == 1 else sym.And(*res)
        if isinstance(e, ast.IfExp):
            c = self.expr(e.test, env)
            if not sym.is_sym(c):
                return self.expr(e.body if c else e.orelse, env)
            return sym.merge(_be(c), self.expr(e.body, env), self.expr(e.orelse, env))
        if isinstance(e, ast.Subscript):
            base = self.expr(e.value, env)
            idx = self.expr(e.slice, env)
            if isinstance(base, SSeq):
                return base.get(_ie(idx))
            if isinstance(base, sym.ZSeq):
                return base[idx]
            if sym.is_sym(idx):
                if isinstance(base, (list, tuple)):
                    return sym.SEnum(_ie(idx), base).collapse()
                raise Unsupported("symbolic index into %r" % type(base))
            return base[idx]
        if isinstance(e, ast.Attribute):
            return getattr(self.expr(e.value, env), e.attr)
        if isinstance(e, ast.Call):
            f = self.expr(e.func, env)
            args = [self.expr(a, env) for a in e.args]
            if f is len:
                return sym.Len(args[0])
            if isinstance(f, SpecFn):
                return f(*args)
            if isinstance(f, z3.FuncDeclRef):
                r = f(*[_ie(a) for a in args])
                if z3.is_seq(r):
                    return sym.ZSeq(r)      # uninterpreted function into byte sequences (abstract chunks)
                return SInt(r)
            if f in (min, max) and any(sym.is_sym(a) for a in args):
                a, b = args
                c = (a <= b) if f is min else (a >= b)
                return sym.merge(_be(c), a, b)
            if f is sym.set_add or isinstance(getattr(f, "__self__", None), SSet):
                return f(*args)
            if not any(sym.is_sym(a) for a in args):
                return f(*args)
            raise Unsupported("spec call of %r with symbolic arguments" % (f,))
        raise Unsupported("spec expression %s" % type(e).__name__)

    def compare(self, op, a, b):
        import operator as o
        table = {ast.Lt: o.lt, ast.LtE: o.le, ast.Gt: o.gt, ast.GtE: o.ge, ast.Eq: o.eq, ast.NotEq: o.ne}
        if type(op) in table:
            return table[type(op)](a, b)
        if isinstance(op, (ast.In, ast.NotIn)):
            if isinstance(b, SSet):
                r = b.contains(a)
            elif sym.is_sym(a):
                r = sym.Or(*[a == x for x in b]) if len(b) else False
            else:
                r = a in b
            return sym.Not(r) if isinstance(op, ast.NotIn) else r
        raise Unsupported("spec comparison %s" % type(op).__name__)


def lemma_obligations():
    """induction obligations of every spec function that has a lemma and was used symbolically"""
    out = []
    for fn in _REGISTRY.values():
        if fn.lemma is not None and fn._decl is not None:
            hyps, goal = fn.lemma_obligation()
            out.append((fn.name, hyps, goal))
    return out


@spec(lemma=lambda r, n: r >= 1)
def p2(n: int) -> int:
    """2**n for n >= 0 (1 for n <= 0)"""
    if n <= 0:
        return 1
    return 2 * p2(n - 1)
