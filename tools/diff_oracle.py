"""Bounded differential: xdis (from /repo) against the oracle dumps produced by
tools/oracle_dump.py under each installed CPython.  Not deductive; used for
reconnaissance, for spec adequacy and as labelled bounded stand-in.
usage: python diff_oracle.py [ver ...]   (run with PYTHONPATH=/repo)
"""
import sys, os, json, binascii, io, contextlib
HERE = os.path.dirname(os.path.abspath(__file__))
REF = os.path.join(os.path.dirname(HERE), "spec", "ref")

def load(ver):
    with open(os.path.join(REF, "oracle_%s.json" % ver)) as f:
        return json.load(f)

def norm_av(av):
    import types
    if hasattr(av, "co_name") and hasattr(av, "co_code"):
        return "<code %s>" % av.co_name
    if isinstance(av, (int, str, type(None))):
        return av
    return repr(av)

def run(ver, verbose=True):
    from xdis.unmarshal import load_code
    from xdis.magics import magic2int
    from xdis.op_imports import get_opcode_module
    from xdis.bytecode import Bytecode, parse_exception_table
    o = load(ver)
    magic_int = magic2int(binascii.unhexlify(o["magic"]))
    vt = tuple(o["version"][:2])
    opc = get_opcode_module(tuple(o["version"]), None)
    diffs = []
    def D(prog, idx, what, want, got):
        diffs.append((ver, prog, idx, what, want, got))
    for prog, cos in sorted(o["programs"].items()):
        for idx, d in enumerate(cos):
            try:
                co = load_code(binascii.unhexlify(d["marshal"]), magic_int)
            except Exception as e:
                D(prog, idx, "load_code", "ok", repr(e)); continue
            buf = io.StringIO()
            with contextlib.redirect_stdout(buf):
                labels = opc.findlabels(co.co_code, opc)
            if buf.getvalue():
                D(prog, idx, "stdout-noise", "", buf.getvalue()[:40])
            if sorted(set(labels)) != sorted(set(d["findlabels"])):
                D(prog, idx, "findlabels", sorted(set(d["findlabels"])), sorted(set(labels)))
            ls = list(opc.findlinestarts(co))
            if [list(p) for p in ls] != d["findlinestarts"]:
                D(prog, idx, "findlinestarts", d["findlinestarts"][:6], [list(p) for p in ls][:6])
            with contextlib.redirect_stdout(io.StringIO()):
                try:
                    ins = list(Bytecode(co, opc, dup_lines=False))
                except Exception as e:
                    D(prog, idx, "Bytecode", "ok", repr(e)); ins = []
            want = d["instructions"]
            got = [[i.offset, i.opcode, i.opname, i.arg, norm_av(i.argval), bool(i.is_jump_target), i.starts_line] for i in ins]
            gotmap = dict((g[0], g) for g in got)
            wantoffs = set(w[0] for w in want)
            for g in got:
                if g[0] not in wantoffs and g[2] != "CACHE":
                    D(prog, idx, "extra-instr@%d(%s)" % (g[0], g[2]), None, g)
            hasarg = o["opcode"].get("hasarg")
            for w in want:
                g = gotmap.get(w[0])
                if g is None:
                    D(prog, idx, "missing-instr@%d(%s)" % (w[0], w[2]), w, None); continue
                for k, nm in enumerate(["offset", "opcode", "opname", "arg", "argval", "is_jump_target", "starts_line"]):
                    if nm == "argval":
                        # only table-indexed and jump operands are demanded
                        op = w[1]
                        cats = o["opcode"]
                        tabled = any(op in cats.get(c, []) for c in ("hasjrel", "hasjabs", "hasconst", "hasname", "haslocal", "hasfree", "hascompare"))
                        if not tabled:
                            continue
                        if op in cats.get("hasconst", []) and w[k] != g[k]:
                            # const reprs differ across hosts (e.g. code objects, frozenset order)
                            if str(w[k]).startswith("<code") or "frozenset" in str(w[k]):
                                continue
                    if nm == "arg" and (w[1] not in hasarg if hasarg is not None else w[1] < o["opcode"]["HAVE_ARGUMENT"]):
                        continue
                    if nm == "argval" and w[1] in o["opcode"].get("hasconst", []):
                        if repr(g[k]) == w[k] or str(g[k]) == w[k] or g[k] == w[k]:
                            continue
                    if w[k] != g[k]:
                        D(prog, idx, "instr.%s@%d(%s)" % (nm, w[0], w[2]), w[k], g[k])
            if "exception_entries" in d and hasattr(co, "co_exceptiontable"):
                ee = [[e.start, e.end, e.target, e.depth, bool(e.lasti)] for e in parse_exception_table(co.co_exceptiontable)]
                if ee != d["exception_entries"]:
                    D(prog, idx, "exception_entries", d["exception_entries"][:3], ee[:3])
            if "co_lines" in d and hasattr(co, "co_lines"):
                cl = [list(p) for p in co.co_lines()]
                # compare as code-unit -> line maps
                def expand(rows):
                    m = {}
                    for s, e, l in rows:
                        for a in range(s, e, 2):
                            m[a] = l
                    return m
                if expand(cl) != expand(d["co_lines"]):
                    D(prog, idx, "co_lines(map)", d["co_lines"][:4], cl[:4])
            if "co_positions" in d and hasattr(co, "co_positions"):
                try:
                    cp = [list(p) for p in co.co_positions()]
                except Exception as e:
                    cp = repr(e)
                if cp != d["co_positions"]:
                    D(prog, idx, "co_positions", d["co_positions"][:3], cp[:3] if isinstance(cp, list) else cp)
            for fld in ("co_argcount", "co_nlocals", "co_stacksize", "co_flags", "co_firstlineno", "co_names", "co_varnames", "co_freevars", "co_cellvars", "co_name", "co_filename", "co_qualname", "co_kwonlyargcount", "co_posonlyargcount"):
                if fld in d and hasattr(co, fld):
                    g = getattr(co, fld)
                    if isinstance(g, (tuple, list)): g = [str(x) for x in g]
                    if g != d[fld]:
                        D(prog, idx, fld, d[fld], g)
    return diffs

if __name__ == "__main__":
    vers = sys.argv[1:] or ["2.7", "3.6", "3.7", "3.8", "3.9", "3.10", "3.11", "3.12", "3.13"]
    tot = 0
    for v in vers:
        ds = run(v)
        kinds = {}
        for d in ds:
            key = d[3].split("@")[0]
            kinds.setdefault(key, []).append(d)
        print("== %s: %d diffs" % (v, len(ds)))
        for k, lst in sorted(kinds.items()):
            print("   %-28s x%-4d e.g. %s" % (k, len(lst), lst[0][1:]))
        tot += len(ds)
    sys.exit(1 if tot else 0)
