#!/usr/bin/env python3
"""Mutation campaign (development tool, not a registered check): random small AST mutations in the files the properties are
anchored in; mutants that the repository's own 39 baseline tests do not notice are run against the mapped checks.
usage: mutation_campaign.py N SEED  -> .work/mutation_campaign.jsonl"""
import ast
import json
import os
import random
import shutil
import subprocess
import sys
import tempfile

VERIF = os.path.dirname(os.path.dirname(os.path.abspath(__file__)))
TARGETS = {
    "xdis/unmarshal.py": ["C01", "C10"],
    "xdis/marsh.py": ["C14", "C13"],
    "xdis/cross_dis.py": ["C05", "C15", "C04"],
    "xdis/bytecode.py": ["C17", "C02"],
    "xdis/disasm.py": ["C12"],
    "xdis/instruction.py": ["C12"],
    "xdis/codetype/code311.py": ["C05", "C17"],
    "xdis/codetype/code310.py": ["C05", "C19"],
    "xdis/codetype/code30.py": ["C19"],
    "xdis/codetype/code15.py": ["C19"],
    "xdis/load.py": ["C06", "C11", "C13"],
    "xdis/magics.py": ["C08"],
    "xdis/wordcode.py": ["C04"],
    "xdis/std.py": ["C18", "C15"],
    "xdis/codetype/__init__.py": ["C16", "C01"],
    "xdis/codetype/code38.py": ["C19", "C16"],
    "xdis/codetype/code13.py": ["C19", "C16"],
    "xdis/codetype/code20.py": ["C19", "C16"],
    "xdis/codetype/base.py": ["C16", "C19"],
    "xdis/opcodes/base.py": ["C09", "C03"],
    "xdis/opcodes/format/extended.py": ["C12"],
    "xdis/opcodes/format/basic.py": ["C12"],
    "xdis/op_imports.py": ["C09", "C02"],
    "xdis/version_info.py": ["C08", "C07"],
    "xdis/lineoffsets.py": ["C05"],
    "xdis/cross_types.py": ["C07", "C01"],
    "xdis/opcodes/opcode_27.py": ["C09", "C15"],
    "xdis/opcodes/opcode_36.py": ["C09", "C15"],
    "xdis/opcodes/opcode_311.py": ["C09", "C15"],
    "xdis/opcodes/opcode_313.py": ["C09", "C15"],
    "xdis/opcodes/opcode_3x.py": ["C09", "C15"],
    "xdis/util.py": ["C12", "C03"],
    "xdis/disasm.py ": ["C11", "C07"],
    "xdis/unmarshal.py ": ["C11", "C07"],
}
CMP = {ast.Lt: "<=", ast.LtE: "<", ast.Gt: ">=", ast.GtE: ">", ast.Eq: "!=", ast.NotEq: "=="}
BIN = {ast.Add: "-", ast.Sub: "+", ast.LShift: ">>", ast.RShift: "<<", ast.BitAnd: "|", ast.BitOr: "&"}


def sites(path):
    src = open(path).read()
    lines = src.split("\n")
    tree = ast.parse(src)
    out = []
    for fn in ast.walk(tree):
        if not isinstance(fn, (ast.FunctionDef,)):
            continue
        for n in ast.walk(fn):
            if isinstance(n, ast.Compare) and len(n.ops) == 1 and type(n.ops[0]) in CMP and n.lineno == n.end_lineno:
                seg = lines[n.lineno - 1][n.left.end_col_offset:n.comparators[0].col_offset]
                old = {ast.Lt: "<", ast.LtE: "<=", ast.Gt: ">", ast.GtE: ">=", ast.Eq: "==", ast.NotEq: "!="}[type(n.ops[0])]
                if seg.count(old) == 1 and (old not in ("<", ">") or (old + "=") not in seg):
                    out.append((fn.name, n.lineno, n.left.end_col_offset, n.comparators[0].col_offset, seg, seg.replace(old, CMP[type(n.ops[0])]), "cmp"))
            elif isinstance(n, ast.BinOp) and type(n.op) in BIN and n.lineno == n.end_lineno and not isinstance(n.left, ast.Constant) or (isinstance(n, ast.BinOp) and type(n.op) in BIN and n.lineno == n.end_lineno and not isinstance(n.left, (ast.Constant,)) ):
                old = {ast.Add: "+", ast.Sub: "-", ast.LShift: "<<", ast.RShift: ">>", ast.BitAnd: "&", ast.BitOr: "|"}[type(n.op)]
                seg = lines[n.lineno - 1][n.left.end_col_offset:n.right.col_offset]
                if seg.count(old) == 1 and not isinstance(n.left, ast.Constant) or (seg.count(old) == 1 and isinstance(n.left, ast.Constant) and not isinstance(n.left.value, str)):
                    if isinstance(n.left, ast.Constant) and isinstance(n.left.value, str):
                        continue
                    if isinstance(n.right, ast.Constant) and isinstance(n.right.value, str):
                        continue
                    out.append((fn.name, n.lineno, n.left.end_col_offset, n.right.col_offset, seg, seg.replace(old, BIN[type(n.op)]), "binop"))
            elif isinstance(n, ast.Constant) and isinstance(n.value, int) and not isinstance(n.value, bool) and 0 <= n.value <= 4096 and n.lineno == n.end_lineno:
                seg = lines[n.lineno - 1][n.col_offset:n.end_col_offset]
                if seg.strip().isdigit() or seg.lower().startswith("0x"):
                    out.append((fn.name, n.lineno, n.col_offset, n.end_col_offset, seg, str(n.value + 1), "const+1"))
        for n in ast.walk(fn):
            if isinstance(n, (ast.Assign, ast.AugAssign, ast.Expr)) and n.lineno == n.end_lineno and not (isinstance(n, ast.Expr) and isinstance(n.value, ast.Constant)):
                seg = lines[n.lineno - 1][n.col_offset:n.end_col_offset]
                out.append((fn.name, n.lineno, n.col_offset, n.end_col_offset, seg, "pass", "stmt-del"))
            elif isinstance(n, (ast.If, ast.While)) and n.test.lineno == n.test.end_lineno:
                seg = lines[n.test.lineno - 1][n.test.col_offset:n.test.end_col_offset]
                out.append((fn.name, n.test.lineno, n.test.col_offset, n.test.end_col_offset, seg, "not (" + seg + ")", "negate"))
    return lines, out


def main():
    count, seed = int(sys.argv[1]), int(sys.argv[2])
    rng = random.Random(seed)
    outp = os.path.join(VERIF, ".work", sys.argv[3] if len(sys.argv) > 3 else "mutation_campaign.jsonl")
    os.makedirs(os.path.dirname(outp), exist_ok=True)
    done = 0
    tried = 0
    while done < count and tried < count * 6:
        tried += 1
        relkey = rng.choice(sorted(TARGETS))
        rel = relkey.strip()
        if not os.path.exists(os.path.join("/repo", rel)):
            continue
        lines, ss = sites(os.path.join("/repo", rel))
        kinds = [k for k in os.environ.get("MC_KINDS", "").split(",") if k]
        if kinds:
            ss = [x for x in ss if x[-1] in kinds]
        if os.environ.get("MC_FILES") and not __import__("re").search(os.environ["MC_FILES"], rel):
            continue
        if not ss:
            continue
        fn, ln, c0, c1, old, new, kind = rng.choice(ss)
        scratch = tempfile.mkdtemp(prefix="xdis-verif-mc-")
        try:
            subprocess.run(["rsync", "-a", "--exclude", ".git", "--exclude", "__pycache__", "/repo/", scratch + "/"], check=True)
            l2 = list(lines)
            l2[ln - 1] = l2[ln - 1][:c0] + new + l2[ln - 1][c1:]
            open(os.path.join(scratch, rel), "w").write("\n".join(l2))
            try:
                ast.parse("\n".join(l2))
            except SyntaxError:
                continue
            rec = {"file": rel, "function": fn, "line": ln, "kind": kind, "old": lines[ln - 1].strip()[:120], "new": l2[ln - 1].strip()[:120]}
            b = subprocess.run(["bash", os.path.join(VERIF, "tools", "run_baseline.sh")], env=dict(os.environ, REPO_DIR=scratch), capture_output=True, text=True)
            rec["baseline"] = (b.stdout.strip().split("\n") or [""])[0]
            if "39/39" not in rec["baseline"]:
                rec["verdict"] = "killed-by-repo-tests"
            else:
                rec["checks"] = {}
                caught = False
                for p in TARGETS[relkey]:
                    q = subprocess.run(["python3-vt", os.path.join(VERIF, "check.py"), p], env=dict(os.environ, XDIS_REPO=scratch), capture_output=True, text=True, errors="replace")
                    v = [l for l in q.stdout.split("\n") if l.startswith("VIOLATION")]
                    rec["checks"][p] = {"exit": q.returncode, "violations": len(v), "first": (v[0].split("replays/")[-1][:90] if v else ""),
                                        "undecided": sum(1 for l in q.stdout.split("\n") if l.startswith("UNDECIDED")), "error": [l[:160] for l in q.stdout.split("\n") if l.startswith("CHECKER-ERROR")][:1]}
                    caught = caught or q.returncode == 1
                rec["verdict"] = "caught" if caught else "survived"
            with open(outp, "a") as f:
                f.write(json.dumps(rec) + "\n")
            done += 1
        finally:
            shutil.rmtree(scratch, ignore_errors=True)


main()
