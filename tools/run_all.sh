#!/bin/bash
# run every claimed check (tier $1, default quick) on /repo and print one line per property
tier=${1:-quick}
cd /verif
for p in $(python3 -c "import json;print(' '.join(c['property_id'] for c in json.load(open('MANIFEST.json'))['checks']))"); do
  s=$(date +%s)
  out=$(python3-vt check.py $p --tier $tier 2>&1); rc=$?
  e=$(date +%s)
  echo "$p exit=$rc wall=$((e-s))s  $(echo "$out" | grep -c '^KNOWN-FINDING') known-finding lines; $(echo "$out" | grep 'obligations:' | head -1)"
  if [ $rc -ne 0 ]; then echo "$out" | grep "VIOLATION\|UNDECIDED\|CHECKER-ERROR" | head -5; fi
done
