#!/bin/bash
# usage: verify_seed.sh /tmp/seed/C05a   -> confirms: patch applies, baseline 39/39 on the patched tree,
# demo exits 0 on the clean tree and non-zero on the patched tree.  Prints one line: OK/FAIL + reasons.
d="$1"; id=$(basename "$d")
scratch=$(mktemp -d /tmp/xdis-verif-seed-XXXXXX)
trap 'rm -rf "$scratch"' EXIT
rsync -a --exclude .git --exclude __pycache__ /repo/ "$scratch/"
cp "$d/demo.py" "$scratch/.demo_$id.py"
cd "$scratch"
if ! patch -p1 -s --dry-run < "$d/patch.diff" >/dev/null 2>&1; then echo "$id FAIL patch-does-not-apply"; exit 1; fi
PYTHONDONTWRITEBYTECODE=1 PYTHONPATH="$scratch" timeout 600 /venv/bin/python ".demo_$id.py" >/tmp/seed_clean_$id.log 2>&1; c=$?
patch -p1 -s < "$d/patch.diff"
PYTHONDONTWRITEBYTECODE=1 PYTHONPATH="$scratch" timeout 600 /venv/bin/python ".demo_$id.py" >/tmp/seed_mut_$id.log 2>&1; m=$?
b=$(REPO_DIR="$scratch" /verif/tools/run_baseline.sh | head -1)
if [ $c -eq 0 ] && [ $m -ne 0 ] && [ "$b" = "baseline stable tests: 39/39 pass" ]; then echo "$id OK clean=$c mutated=$m $b"; exit 0; fi
echo "$id FAIL clean=$c mutated=$m $b"; exit 1
