# -*- coding: utf-8 -*-
"""Dump, from the interpreter that runs this script, everything the specs are
validated against: for each code object of a set of generated programs the raw
fields plus what this interpreter's own dis / code-object API reports.
Runs under CPython 2.7 and 3.6-3.13.  Output: JSON on stdout.
"""
from __future__ import print_function
import sys, dis, json, marshal, types, binascii, opcode

PY3 = sys.version_info[0] >= 3
V = sys.version_info[:2]

def hx(b):
    if b is None:
        return None
    if not isinstance(b, bytes):
        b = b.encode('latin-1')
    return binascii.hexlify(b).decode('ascii')

SOURCES = {}
SOURCES['loops'] = '''
def f(a, b):
    total = 0
    for i in range(a):
        if i % 2:
            continue
        while b > 0:
            b -= 1
            if b == 3:
                break
        else:
            total += 1
        try:
            total += i
        except ValueError as e:
            total -= 1
        finally:
            total += 2
    return total
'''
SOURCES['closures'] = '''
def outer(x, y):
    z = x + y
    def inner(w):
        def innermost():
            return x + w + z
        return innermost
    class K:
        attr = x
        def m(self):
            return y
    return inner, K, [q for q in range(x) if q != z]
'''
SOURCES['gen'] = '''
def g(n):
    for i in range(n):
        x = yield i
        if x:
            yield x
    return
'''
# many statements: pre-3.6 jump targets > 255, extended args
SOURCES['long'] = 'def h(a):\n' + '    while a:\n' + ''.join('        a = a + %d\n' % i for i in range(120)) + '        if a > 5: continue\n        a -= 1\n    return a\n'
SOURCES['manyconsts'] = 'def k():\n    return [' + ', '.join(str(1000 + i) for i in range(300)) + ']\n' + 'def k2(x):\n' + ''.join('    x = x.n%d\n' % i for i in range(300)) + '    return x\n'
SOURCES['linegaps'] = 'def lg(a):\n    x = 1\n' + '\n' * 300 + '    y = 2\n' + '\n' * 140 + '    z = (a,\n' + '\n' * 130 + '         x)\n    return (x +\n       y)\n'
SOURCES['cmp'] = '''
def c(a, b):
    return (a < b, a <= b, a == b, a != b, a > b, a >= b, a in b, a not in b, a is b, a is not b)
def c2(a, b):
    try:
        return a
    except KeyError:
        return b
    if a < b and b > a or a == b:
        return 1
'''
if PY3:
    SOURCES['kw'] = '''
def kw(a, *b, c=1, **d):
    return a(*b, c=c, **d), f"{a!r:>{c}}", {**d}, [*b], a.attr, a.meth(c)
def sup():
    class B(object):
        def m(self):
            return super().m() + super().x
    return B
'''
if V >= (3, 5):
    SOURCES['async'] = '''
async def co(a):
    async with a as b:
        async for i in b:
            await i
    return [x async for x in a]
'''
if V >= (3, 8):
    SOURCES['posonly'] = '''
def po(a, b, /, c, *, d):
    if (n := a + b) > c:
        return n
    return d
'''
if V >= (3, 10):
    SOURCES['match'] = '''
def m(x):
    match x:
        case [a, b]:
            return a
        case {"k": v}:
            return v
        case _:
            return None
'''
if V >= (3, 11):
    SOURCES['exc'] = '''
def e(a):
    try:
        a()
    except* ValueError:
        pass
    with a as q:
        try:
            q()
        except (KeyError, TypeError) as exc:
            raise RuntimeError from exc
'''

def code_objects(co, acc):
    acc.append(co)
    for c in co.co_consts:
        if isinstance(c, types.CodeType):
            code_objects(c, acc)
    return acc

def const_repr(c):
    if isinstance(c, types.CodeType):
        return '<code %s>' % c.co_name
    return repr(c)

def dump_code(co):
    d = {}
    for a in dir(co):
        if a.startswith('co_') and not callable(getattr(co, a)):
            v = getattr(co, a)
            if a in ('co_code', 'co_lnotab', 'co_linetable', 'co_exceptiontable'):
                d[a] = hx(v)
            elif a == 'co_consts':
                d[a] = [const_repr(c) for c in v]
            elif isinstance(v, (tuple, list)):
                d[a] = [x if isinstance(x, (int, type(None))) else str(x) for x in v]
            elif isinstance(v, (int, type(None))):
                d[a] = v
            elif isinstance(v, bytes) and PY3:
                d[a] = hx(v)
            else:
                d[a] = str(v)
    d['findlabels'] = list(dis.findlabels(co.co_code))
    d['findlinestarts'] = [list(p) for p in dis.findlinestarts(co)]
    if hasattr(co, 'co_lines'):
        d['co_lines'] = [list(p) for p in co.co_lines()]
    if hasattr(co, 'co_positions'):
        d['co_positions'] = [list(p) for p in co.co_positions()]
    if hasattr(dis, '_parse_exception_table'):
        d['exception_entries'] = [[e.start, e.end, e.target, e.depth, bool(e.lasti)] for e in dis._parse_exception_table(co)]
    if hasattr(dis, 'get_instructions'):
        kw = {}
        if V >= (3, 11):
            kw['show_caches'] = True
        ins = []
        for i in (dis.Bytecode(co, **kw) if V >= (3, 11) else dis.get_instructions(co, **kw)):
            av = i.argval
            if isinstance(av, types.CodeType):
                av = '<code %s>' % av.co_name
            elif not isinstance(av, (int, str, type(None))):
                av = repr(av)
            sl = i.starts_line
            if V >= (3, 13):
                sl = i.line_number if i.starts_line else None
            ins.append([i.offset, i.opcode, i.opname, i.arg, av, bool(i.is_jump_target), sl])
        d['instructions'] = ins
        ins2 = []
        for i in dis.get_instructions(co, first_line=1000):
            sl = i.starts_line
            if V >= (3, 13):
                sl = i.line_number if i.starts_line else None
            ins2.append([i.offset, sl])
        d['instructions_first_line_1000'] = ins2
    else:
        # 2.7: parse like dis.disassemble
        code = co.co_code
        n = len(code); i = 0; ext = 0; ins = []
        labels = dis.findlabels(code)
        ls = dict(dis.findlinestarts(co))
        free = None
        while i < n:
            op = ord(code[i]); off = i; i += 1
            arg = None; av = None
            if op >= dis.HAVE_ARGUMENT:
                arg = ord(code[i]) + ord(code[i+1]) * 256 + ext
                ext = 0; i += 2
                if op == dis.EXTENDED_ARG:
                    ext = arg * 65536
                av = arg
                if op in dis.hasconst: av = const_repr(co.co_consts[arg])
                elif op in dis.hasname: av = co.co_names[arg]
                elif op in dis.hasjrel: av = i + arg
                elif op in dis.haslocal: av = co.co_varnames[arg]
                elif op in dis.hascompare: av = dis.cmp_op[arg]
                elif op in dis.hasfree:
                    if free is None: free = co.co_cellvars + co.co_freevars
                    av = free[arg]
            ins.append([off, op, dis.opname[op], arg, av, off in labels, ls.get(off)])
        d['instructions'] = ins
    d['marshal'] = hx(marshal.dumps(co))
    return d

def opcode_tables():
    t = {'opmap': dict(opcode.opmap), 'HAVE_ARGUMENT': opcode.HAVE_ARGUMENT,
         'EXTENDED_ARG': opcode.EXTENDED_ARG, 'cmp_op': list(opcode.cmp_op)}
    for k in ('hasjrel', 'hasjabs', 'hasconst', 'hasname', 'haslocal', 'hasfree', 'hascompare', 'hasarg', 'hasexc', 'hasjump'):
        if hasattr(opcode, k):
            t[k] = sorted(getattr(opcode, k))
        elif hasattr(dis, k):
            t[k] = sorted(getattr(dis, k))
    ice = getattr(opcode, '_inline_cache_entries', None)
    if ice is not None:
        if isinstance(ice, dict):
            t['inline_cache_entries'] = dict((k, v) for k, v in ice.items() if v)
        else:
            t['inline_cache_entries'] = dict((opcode.opname[i], v) for i, v in enumerate(ice) if v)
    t['opname'] = list(opcode.opname)
    return t

def stack_effects():
    if not hasattr(dis, 'stack_effect'):
        return None
    out = {}
    opargs = list(range(0, 300)) + [511, 512, 1000, 1023, 1024, 4095, 4096, 65535, 65536, 65537, 70000, 2**20 + 5, 2**24 + 3, 2**31 - 1]
    for name, op in opcode.opmap.items():
        row = []
        hasarg = getattr(opcode, 'hasarg', None)
        noarg = (op not in hasarg) if hasarg is not None else (op < opcode.HAVE_ARGUMENT)
        if noarg:
            try:
                row.append([None, dis.stack_effect(op)])
            except ValueError:
                row.append([None, 'err'])
        else:
            for a in opargs:
                try:
                    row.append([a, dis.stack_effect(op, a)])
                except (ValueError, SystemError, OverflowError):
                    row.append([a, 'err'])
        out[name] = row
    return out

def main():
    res = {'version': list(sys.version_info[:3]), 'programs': {}}
    if PY3:
        import importlib.util
        res['magic'] = hx(importlib.util.MAGIC_NUMBER)
    else:
        import imp
        res['magic'] = hx(imp.get_magic())
    for name, src in sorted(SOURCES.items()):
        co = compile(src, '<%s>' % name, 'exec')
        res['programs'][name] = [dump_code(c) for c in code_objects(co, [])]
    res['opcode'] = opcode_tables()
    res['stack_effect'] = stack_effects()
    json.dump(res, sys.stdout, indent=None, sort_keys=True)

if __name__ == '__main__':
    main()
