#!/usr/bin/env python3
"""Render .work/seed_matrix.txt (tools/seed_matrix.sh) as the markdown table of DESIGN.md section 10.7."""
import json
import os
import re
import sys

HERE = os.path.dirname(os.path.dirname(os.path.abspath(__file__)))
rows = {}
for ln in open(os.path.join(HERE, ".work", "seed_matrix.txt")):
    m = re.match(r"(\S+) (\S+) exit=(\S*) violations=(\d+) wall=(\d+)s first=(\S*)(.*)", ln.strip())
    if not m:
        continue
    sd, prop, rc, nv, wall, first, rest = m.groups()
    rows.setdefault(sd, []).append((prop, rc, int(nv), int(wall), first, rest.strip()))
print("| seed | change (one line) | check: verdict | caught by |")
print("|---|---|---|---|")
for sd in sorted(rows, key=lambda s: (int(s[1:3]), s[3:])):
    meta = json.load(open(os.path.join(HERE, "seeded", sd, "meta.json")))
    summ = re.sub(r"\s+", " ", meta["summary"]).strip()
    summ = summ[:150] + ("…" if len(summ) > 150 else "")
    cells, how = [], []
    for prop, rc, nv, wall, first, rest in rows[sd]:
        if rc == "1":
            kind = "bounded" if "_bounded_" in first or "bounded-native-search" in first else ("frame" if "_frame_" in first else "proof")
            ob = re.sub(r"^C\d\d_C\d\d_+", "", first).replace(".json", "")
            cells.append("%s: VIOLATION (%d, %d s)" % (prop, nv, wall))
            how.append("%s %s `%s`" % (prop, kind, ob[:70]))
        elif rc == "0":
            cells.append("%s: **missed** (exit 0)" % prop)
        else:
            cells.append("%s: exit %s %s" % (prop, rc or "?", rest[:60]))
    print("| %s | %s | %s | %s |" % (sd, summ.replace("|", "\\|"), "; ".join(cells), "; ".join(how) or "—"))
