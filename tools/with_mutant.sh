#!/bin/bash
# usage: with_mutant.sh <patch.diff | "sed-expr file"> -- <command...>
# Applies a change to a scratch copy of /repo (under $TMPDIR, removed afterwards) and runs the command
# with XDIS_REPO pointing at it.  /repo itself is never touched.
set -e
patch="$1"; shift; [ -f "$patch" ] && patch=$(readlink -f "$patch"); [ "$1" = "--" ] && shift
scratch=$(mktemp -d "${TMPDIR:-/tmp}/xdis-verif-mut-XXXXXX")
trap 'rm -rf "$scratch"' EXIT
rsync -a --exclude .git --exclude __pycache__ /repo/ "$scratch/"
if [ -f "$patch" ]; then
  (cd "$scratch" && patch -p1 -s < "$patch")
else
  # "sed-expr::relative/file"
  expr="${patch%%::*}"; file="${patch##*::}"
  sed -i -e "$expr" "$scratch/$file"
  if cmp -s "$scratch/$file" "/repo/$file"; then echo "with_mutant: sed expression changed nothing" >&2; exit 9; fi
fi
set +e
XDIS_REPO="$scratch" "$@"
rc=$?
exit $rc
