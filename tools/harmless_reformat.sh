#!/bin/bash
# False-alarm probe: re-print every module of the package with ast.unparse (comments, layout and quoting change, semantics
# do not) in a scratch copy and run the given checks (default: all) on it.  Every check must exit 0 with no VIOLATION line.
# usage: harmless_reformat.sh [Cnn ...]
cd /verif
scratch=$(mktemp -d "${TMPDIR:-/tmp}/xdis-verif-fmt-XXXXXX")
trap 'rm -rf "$scratch"' EXIT
rsync -a --exclude .git --exclude __pycache__ /repo/ "$scratch/"
python3-vt - "$scratch" <<'PY'
import ast, os, sys
n = 0
for d, _, fs in os.walk(os.path.join(sys.argv[1], "xdis")):
    for f in fs:
        if f.endswith(".py"):
            p = os.path.join(d, f)
            src = open(p).read()
            try:
                out = ast.unparse(ast.parse(src)) + "\n"
            except Exception:
                continue
            open(p, "w").write(out)
            n += 1
print("reformatted %d files" % n)
PY
echo "$(REPO_DIR=$scratch tools/run_baseline.sh | head -1)"
props="$@"; [ -z "$props" ] && props=$(python3 -c "import json;print(' '.join(c['property_id'] for c in json.load(open('MANIFEST.json'))['checks']))")
for p in $props; do
  out=$(XDIS_REPO="$scratch" python3-vt check.py $p 2>&1); rc=$?
  echo "$p exit=$rc violations=$(echo "$out" | grep -c '^VIOLATION') undecided=$(echo "$out" | grep -c '^UNDECIDED') $(echo "$out" | grep '^CHECKER-ERROR' | head -1 | cut -c1-160)"
done
