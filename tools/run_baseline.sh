#!/bin/bash
# Runs the repository's pinned baseline (guard OFF) and checks that all 39 stable tests pass.
unset XDIS_VERIF
out=$(mktemp /tmp/xdis-baseline-XXXXXX.xml)
cd "${REPO_DIR:-/repo}" && PYTHONPATH="${REPO_DIR:-/repo}" PYTHONDONTWRITEBYTECODE=1 /venv/bin/python -m pytest -ra -q -p no:cacheprovider --timeout=900 --continue-on-collection-errors --junitxml=$out >/dev/null 2>&1
python3 - "$out" <<'PY'
import sys, json, xml.etree.ElementTree as ET
base = json.load(open('/root/.vp/BASELINE.json'))['stable_pass']
t = ET.parse(sys.argv[1]).getroot()
ok = set()
for tc in t.iter('testcase'):
    bad = any(c.tag in ('failure', 'error', 'skipped') for c in tc)
    name = tc.get('classname', '') + '::' + tc.get('name', '')
    if not bad:
        ok.add(name)
missing = [b for b in base if b not in ok]
print("baseline stable tests: %d/%d pass" % (len(base) - len(missing), len(base)))
for m in missing: print("  NOT PASSING:", m)
sys.exit(1 if missing else 0)
PY
rc=$?
rm -f $out
exit $rc
