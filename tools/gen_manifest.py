#!/usr/bin/env python3
"""Regenerate MANIFEST.json from propdefs.py (claimed checks) + the not-applicable list."""
import json, os, sys
HERE = os.path.dirname(os.path.dirname(os.path.abspath(__file__)))
sys.path.insert(0, HERE)
import propdefs

props = [json.loads(l) for l in open(os.path.join(HERE, "properties.jsonl"))]
checks = []
na = []
for p in props:
    pid = p["id"]
    pd = propdefs.PROPS.get(pid)
    if pd is None or not pd.get("claimed", True):
        na.append({"property_id": pid, "reason": (pd or {}).get("na_reason") or propdefs.NOT_YET.get(pid, "no check built yet; see DESIGN.md")})
        continue
    checks.append({
        "property_id": pid,
        "quick_cmd": "python3-vt check.py %s --tier quick" % pid,
        "thorough_cmd": "python3-vt check.py %s --tier thorough" % pid,
        "evidence_file": "evidence/%s.json" % pid,
        "replay_cmd_template": "python3-vt check.py %s --replay {path}" % pid,
        "engine": "pyvc",
        "level_claimed": {"category": pd.get("level", "proof"), "text": pd["level_text"], "design_ref": pd.get("design_ref", "DESIGN.md section 10.3 (as built) and section 5 (%s)" % pid)},
        "level_note": pd["level_note"],
        "technique": pd.get("technique", "contract-based deductive verification: sidecar contracts on the real functions, VCs generated from /repo's ASTs by pyvc, discharged by z3/cvc5"),
    })
m = {"version": 1,
     "setup_cmd": "true",
     "hooks": {"guard": "XDIS_VERIF", "enable": "no hooks are compiled into /repo: contracts are sidecar files under /verif/contracts and the checker reads /repo's sources (XDIS_VERIF is reserved and unused)",
               "baseline_off_cmd": "/verif/tools/run_baseline.sh", "source_commits": [], "add_only": True},
     "engines": [{"name": "pyvc", "path": "pyvc/", "serves_properties": [c["property_id"] for c in checks],
                  "kind_free_text": "verification-condition generator for a Python subset (symbolic execution of the real ASTs against sidecar contracts; loops cut at invariants; calls by contract; specs as uninterpreted functions with explicit unfolding) + z3/cvc5 + native replay of counter-models"}],
     "checks": checks,
     "notes": "exit codes of every check: 0 held on everything explored / 1 violation (VIOLATION line) / 3 checker error; an UNDECIDED unit (edit outside the verifier's subset, contract needing maintenance, solver time-out) is followed by a bounded native search and, if that is clean, reported with UNDECIDED lines, exit 0 and an evidence file downgraded to level exploration (PYVC_STRICT=1: exit 2). KNOWN-FINDING lines list recorded genuine defects (known_findings.json).",
     "not_applicable": na}
json.dump(m, open(os.path.join(HERE, "MANIFEST.json"), "w"), indent=1)
print("checks:", [c["property_id"] for c in checks], "n/a:", [x["property_id"] for x in na])
