#!/bin/bash
# For every seeded change: apply it to a scratch copy and run the checks listed for it; one line per (seed, check).
# usage: seed_matrix.sh [seed ...]    output: .work/seed_matrix.txt
cd /verif
mkdir -p .work
out=.work/seed_matrix.txt
seeds="$@"; [ -z "$seeds" ] && seeds=$(ls seeded)
for sd in $seeds; do
  own=$(echo $sd | cut -c1-3)
  extra=""
  case $sd in
    C07a) extra="C01";; C13c) extra="C14";; C07b) extra="C05";; C12a) extra="C04";; C13a) extra="C10";; C13b) extra="C14";; C15b) extra="C18";; C04b) extra="C18";; C09b) extra="C18";; C20b) extra="C04";;
  esac
  for p in $own $extra; do
    s=$(date +%s)
    res=$(tools/with_mutant.sh seeded/$sd/patch.diff -- python3-vt check.py $p 2>&1)
    rc=$(echo "$res" | grep "^exit " | tail -1 | awk '{print $2}')
    nv=$(echo "$res" | grep -c "^VIOLATION")
    first=$(echo "$res" | grep "^VIOLATION" | head -1 | sed 's#.*/replays/##' | cut -c1-110)
    und=$(echo "$res" | grep "^UNDECIDED\|^CHECKER-ERROR" | head -1 | cut -c1-140)
    e=$(date +%s)
    echo "$sd $p exit=$rc violations=$nv wall=$((e-s))s first=$first $und" | tee -a $out
  done
done
